"""props_all.py — registry of property runners."""
from __future__ import annotations

import random

import props_spec
import props_generic
from framework import BASE_TRUST, Ctx


def run_c14(ctx: Ctx):
    ctx.trusted_base = BASE_TRUST
    thms = ["C14_and_comm", "C14_or_comm", "C14_and_assoc", "C14_or_assoc", "C14_and_idem", "C14_or_idem", "C14_absorb_1",
            "C14_absorb_2", "C14_distr_1", "C14_distr_2", "C14_involution", "C14_demorgan_1", "C14_demorgan_2", "C14_complement"]
    props_spec.proof_step(ctx, "Props/C14.v", thms, extra_targets=["Model/Corr.v"])
    pairs = props_spec.run_c14_spec(ctx)
    if not any(b["kind"] == "translation" for b in ctx.broken):
        props_spec.stream_sgen(ctx, pairs[:600], with_predicates=False)
    import props_marker
    import smark
    props_spec.proof_step(ctx, "Props/C14m.v", ["C14m_closure", "C14m_law"], extra_targets=["Model/CorrMarker.v"])
    ctx.trusted_base = BASE_TRUST + MARKER_PROOF_TRUST
    smark.stream_smark(ctx, 40 if ctx.tier == "quick" else 600, with_parse=False, with_only=False, with_eval=True)
    props_marker.oracle_c14_markers(ctx)
    ctx.coverage["rule"] = ("triples of canonical interval sets (as C01) for 13 laws + complement as == of returned objects; "
                            "marker part: truth-table equivalence of both sides on an environment grid")


REGISTRY = {
    "C14": run_c14,
    "C19": props_generic.run_c19,
}


# ------------------------------------------------------------------ marker properties
import props_marker as pm

MARKER_TRUST = [
    "direct property oracle on the implementation (a search for a failing input, not a proof)",
    "packaging's Marker / SpecifierSet as the reference where the property names it",
    "per-case alarm of 4 s on the Python side: timed-out operations are counted, not compared",
]


def _n(ctx, quick, thorough):
    return quick if ctx.tier == "quick" else thorough


C02_THEOREMS = ["C02_and", "C02_or", "C02_empty_any", "C02_normaliser", "C02_parse"]
MARKER_PROOF_TRUST = [
    "Coq 8.16.1 kernel; Print Assumptions of Props/C02.v: closed under the global context",
    "Model/Marker.v is a hand-written, function-for-function model of markers/{base,single,multi,union,empty,any}.py and utils.py (cnf/dnf/intersection/union); "
    "the tie to the code is the S-mark correspondence stream (parse/&/|/only/exclude results compared STRUCTURALLY, evaluate compared on environments), evaluated inside Coq with vm_compute",
    "the merge of two version-like atoms (python_version / python_full_version / platform_release: _merge_single_markers through the specifier algebra and from_specifier) is a PARAMETER `vmerge` "
    "of the model; the theorems assume `vmerge_sound` (a merged atom evaluates as the conjunction / disjunction of the two atoms); the stream S-vmerge-rows checks that hypothesis on every row the "
    "implementation produced during the run; in the tokenised model (Model/Bridge.v, tied by the BMerge / BMergePV / BNormPV cases of S-bridge) the hypothesis is a theorem: C11_merge for two atoms of ONE variable, "
    "C11_normalize / C11_merge_pv for the python_version / python_full_version pair on consistent interpreters (operands with at most two meaningful segments); `in` lists and long python_version operands remain covered by the row check only",
    "Python set iteration order is the parameter `perm`; theorems hold for every permutation; fuel: theorems hold for every fuel (results `Raise Unfueled` excluded)",
    "environments: the theorems quantify over every model environment (menv: string variables, extras set, truth of each version-like atom); evaluate() of an atom is modelled by atom_eval and compared by MCEval cases",
]


def marker_runner(oracle, quick, thorough, rule, explanation, smark_pairs=None, proof=None, only_rate=0.3, n_parse=None):
    def run(ctx: Ctx):
        ctx.level = "other"
        ctx.trusted_base = MARKER_TRUST
        ctx.coverage["explanation"] = explanation
        if proof:
            ctx.level = "proof"
            ctx.trusted_base = MARKER_PROOF_TRUST + MARKER_TRUST
            props_spec.proof_step(ctx, proof[0], proof[1], extra_targets=["Model/CorrMarker.v"])
        if smark_pairs:
            # the tie between Model/Marker.v and dep_logic.markers (structure of parse/&/|/only/exclude results, evaluation)
            import coqrun
            import smark
            ok, log, _ = coqrun.build(["Model/CorrMarker.vo"])
            if not ok:
                ctx.broke("proof", "Model/Marker.v / Model/CorrMarker.v do not build", log[-1500:])
            else:
                smark.stream_smark(ctx, smark_pairs if ctx.tier == "quick" else smark_pairs * 12, only_rate=only_rate,
                                   n_parse=(n_parse if ctx.tier == "quick" else n_parse * 8) if n_parse else None)
        oracle(ctx, _n(ctx, quick, thorough))
        ctx.coverage["rule"] = rule
    return run


GEN_RULE = ("marker texts from a grammar over well-defined atoms (string variables with ==,!=,in,not in; python_version / "
            "python_full_version / platform_release with comparison, ~=, wildcards, in/not in lists; extra ==/!=; 15-20% literal-on-"
            "the-left), combined by and/or to depth <= 3 with a bias to repeat a variable; environments separate every literal "
            "occurring in the operands; distinct = (operation, operand classes, result class, shared variables)")
C02_EXPL = ("theorems C02_and / C02_or / C02_empty_any / C02_parse / C02_normaliser over Model/Marker.v (every fuel, every set order, every sound version-atom merge); "
            "the S-mark stream ties the model to the code, S-vmerge-rows checks the merge hypothesis on the implementation, and the direct oracle searches for a failing input end to end")
REGISTRY.update({
    "C02": marker_runner(pm.oracle_c02, 500, 8000, GEN_RULE, C02_EXPL, smark_pairs=150, proof=("Props/C02.v", C02_THEOREMS)),
    "C03": marker_runner(pm.oracle_c03, 700, 10000, GEN_RULE,
                         "theorem C03_parse: the marker _build_markers returns evaluates, in every environment, as packaging's _evaluate_markers fold (pkg_eval, verbatim) of the parsed tree, provided atoms evaluate alike; "
                         "atom evaluation is the model parameter atom_eval (strings / extras / reversed operands modelled and compared by MCEval cases; version-like atoms a table) and is compared with packaging by the direct oracle",
                         smark_pairs=60, proof=("Props/C03.v", ["C03_parse", "pkg_eval_peval"]), n_parse=250),
    "C12": marker_runner(pm.oracle_c12, 250, 4000, GEN_RULE,
                         "proof: C12_only_vars / C12_exclude_vars (no variable outside names / never the removed variable, at any depth: an invariant through the whole normaliser), C12_only_implied / C12_only_identity / C12_only_wf "
                         "(only() is implied by the marker and equivalent to it when it mentions only the kept names), C12_exclude_identity (exclude() leaves the meaning unchanged on markers that do not mention the variable and have no contradictory conjunct / empty disjunction) over Model/Marker.v",
                         smark_pairs=100, proof=("Props/C12.v", ["C12_only_implied", "C12_only_identity", "C12_only_wf", "C12_only_vars", "C12_exclude_vars", "C12_exclude_identity"]), only_rate=1.0),
    "C15": marker_runner(pm.oracle_c15, 500, 8000, GEN_RULE,
                         "proof, PARTIAL: C15_reachable / C15_and / C15_or / C15_multi_of_shaped / C15_union_of_shaped / C15_only / C15_exclude (every marker reachable from atoms through &, |, of(), only(), exclude() is well shaped at every depth: "
                         "the children of each compound are pairwise distinct and none is a compound of the same kind); C15_multi_of / C15_union_of (what MultiMarker.of / MarkerUnion.of return: the absorbing marker, the neutral marker, the single marker left, or a compound built from >= 2 pairwise distinct, "
                         "non-absorbing processed markers with pairwise distinct children), C15_one_child_refuted (the recorded finding reproduced on the model). The rest of the normal form (no neutral child; at least two children on the paths that do not end in of()) "
                         "is decided by the normal-form checker of the direct oracle on every result and by the structural S-mark correspondence",
                         smark_pairs=100, proof=("Props/C15.v", ["C15_reachable", "C15_and", "C15_or", "C15_multi_of_shaped", "C15_union_of_shaped", "C15_only", "C15_exclude", "C15_shaped_multi", "C15_shaped_union",
                                                                  "C15_multi_of", "C15_union_of", "of_body_shape", "C15_one_child_refuted"])),
})


# ------------------------------------------------------------------ tag properties
import props_tags as pt

TAG_RULE = "see the oracle: the property's own configuration grid (C09) / tag universe x requires_python grid (C08) / EnvSpec grid (C16) / PEP 427 name grid (C18)"
REGISTRY.update({
})


# ------------------------------------------------------------------ parse / render / membership
import props_parse as pp

REGISTRY.update({
})


def run_c13(ctx: Ctx):
    ctx.trusted_base = BASE_TRUST + ["hash(x) is modelled as an unknown function of the generated hash key spec_hkey x (dataclass unsafe_hash: tuple of hash-flagged fields; "
                                     "Version hashes its comparison key); stream S-gen compares key equality with observed hash equality",
                                     "marker part: C13m theorems over Model/Marker.v's marker_eqb (== an equivalence; ==-equal operands give results with the same meaning); hash agreement of markers: C13h theorems over Model/MarkerHash.v (CPython 3.12's tuple hash, collections.abc.Set._hash and the dataclass hash of every marker class written out over Z; the string hash is a parameter), tied by the stream S-mhash (model hash under the observed string hashes = hash(m) in the running interpreter); side condition nodup_vals (an OrderedSet holds no value twice) checked on every case; objects differing only in attached caches: direct oracle only"] + MARKER_PROOF_TRUST
    props_spec.proof_step(ctx, "Props/C13.v", ["C13_refl", "C13_sym", "C13_trans", "C13_total", "C13_hash", "C13_congr"], extra_targets=["Model/Corr.v"])
    props_spec.proof_step(ctx, "Props/C13m.v", ["C13m_refl", "C13m_sym", "C13m_trans", "C13m_same_meaning", "C13m_interchangeable", "C13m_interchangeable_l"], extra_targets=["Model/CorrMarker.v"])
    props_spec.proof_step(ctx, "Props/C13h.v", ["C13h_hash", "C13h_set_order", "C13h_runs", "C13h_dup_refuted", "C13h_reach_nodup", "C13h_hash_reachable"], extra_targets=["Model/MarkerHash.v"])
    pairs = props_spec.run_c13_spec(ctx)
    if not any(b["kind"] == "translation" for b in ctx.broken):
        from dep_logic.specifiers import AnySpecifier, RangeSpecifier
        extra = [("plain", AnySpecifier(), RangeSpecifier()), ("plain", RangeSpecifier(), AnySpecifier())]
        props_spec.stream_sgen(ctx, extra + pairs[: 800 if ctx.tier == "quick" else 8000], with_predicates=False, with_hash=True)
    pm.oracle_c13_markers(ctx, _n(ctx, 200, 3000))
    import smhash
    smhash.stream_smhash(ctx, _n(ctx, 150, 2000))
    ctx.coverage["rule"] = ("pairs/triples of canonical specifiers incl. AnySpecifier vs RangeSpecifier(), respelled bounds (1.0 vs 1.0.0); marker pairs "
                            "that compare equal but were built differently (operand order, value order, zero padding) plus random pairs; "
                            "checks reflexivity, symmetry, transitivity, hash agreement and interchangeability as operands")


REGISTRY["C13"] = run_c13


def run_c09(ctx: Ctx):
    ctx.trusted_base = ["Coq 8.16.1 kernel; Print Assumptions: closed under the global context (vm_compute used for the finite order sweep C09_order_grid, bound stated in the theorem)",
                        "Model/Platform.v is a hand-written model of platform.py; the tie is the S-plat stream, exhaustive over the property's whole configuration grid (and beyond: K up to 100, unsupported combinations)",
                        "packaging.tags (with its glibc/musl probes stubbed) as the reference for 'newest-first exactly as packaging orders it' in the direct oracle"]
    props_spec.proof_step(ctx, "Props/C09.v", ["C09_manylinux", "C09_musl", "C09_mac_x86", "C09_mac_arm64", "C09_mac_arm64_10_refuted", "C09_win", "C09_score", "C09_order_grid"],
                          extra_targets=["Model/CorrPlat.v"])
    pt.stream_splat(ctx)
    pt.oracle_c09(ctx)
    ctx.coverage["rule"] = "the whole configuration grid of the property (manylinux 2.5..2.50 x 7 architectures, musllinux 1.1..1.5, macOS 10.4..10.16 and 11..30 x 2, Windows x 3), plus out-of-grid and unsupported combinations in the correspondence"
    ctx.coverage["exhaustive"] = True


REGISTRY["C09"] = run_c09


def run_c08(ctx: Ctx):
    ctx.trusted_base = BASE_TRUST + ["Model/Tags.v is a hand-written model of EnvSpec._evaluate_python (string slicing, split/replace/lower, startswith/endswith) on top of the "
                                     "GENERATED `&` and is_empty; the tie is the S-tags stream over the tag universe x requires_python x implementation settings",
                                     "the three specifier shapes the code parses (>=X.Y, ==X.Y.*, ==X.*) are taken as their ranges; S-tags compares end-to-end results, so a parser change that alters them is seen as a disagreement"]
    props_spec.proof_step(ctx, "Props/C08.v", ["C08", "tail_spec", "inter_nonempty"], extra_targets=["Model/CorrTags.v"])
    if not any(b["kind"] == "translation" for b in ctx.broken):
        pt.stream_stags(ctx)
    pt.oracle_c08(ctx)
    pt.oracle_gap_c08(ctx)
    ctx.coverage["rule"] = "python/abi tag universe (majors 2-3; minors 0-20 thorough / 8-10 minors quick; every implementation/gil setting; PEP 3149/703 ABI spellings incl. digit-extended ones) x requires_python grid"


REGISTRY["C08"] = run_c08


def run_c16(ctx: Ctx):
    ctx.trusted_base = BASE_TRUST + ["Model/Tags.v (compare, _evaluate_python) and Model/Platform.v are hand-written models tied by the S-cmp, S-tags and S-plat streams",
                                     "C16_plat / nesting theorems are stated for the supported families (manylinux major 2, musllinux major 1, macOS x86_64 10.x with minor <= 16 or >= 11, macOS arm64, Windows)"]
    props_spec.proof_step(ctx, "Props/C16.v", ["C16_python", "C16_plat", "C16_cmp_refl", "C16_cmp_not_both_higher", "C16_cmp_higher_nested", "C16_cmp_loe_nested", "C16_cmp_loe",
                                               "C16_cmp_incompatible_sym", "compare_total"], extra_targets=["Model/CorrTags.v", "Model/CorrPlat.v"])
    if not any(b["kind"] == "translation" for b in ctx.broken):
        pt.stream_scmp(ctx)
        pt.stream_splat(ctx)
    pt.oracle_c16(ctx)
    pt.oracle_gap_c16(ctx)
    ctx.coverage["rule"] = "pairs of EnvSpec over requires_python x platform x implementation (correspondence: 1500/20000 random pairs biased to equal / near-equal specs); wheels from the tag universe"


REGISTRY["C16"] = run_c16


def run_c18(ctx: Ctx):
    ctx.trusted_base = ["Coq 8.16.1 kernel; Print Assumptions: closed under the global context",
                        "Model/Tags.v (parse_wheel_tags) and Model/PlatParse.v (Platform.parse / __str__ / Arch.parse incl. the regular expression, for ASCII input) are hand-written models tied by the S-wheel / S-platparse streams",
                        "CPython's re and str methods are modelled, not verified; operating systems outside manylinux/musllinux/macos/windows are outside the model (skipped by the correspondence)",
                        "packaging.utils.parse_wheel_filename as the reference of the direct oracle"]
    props_spec.proof_step(ctx, "Props/C18.v", ["C18_wheel", "C18_ext", "C18_parts", "C18_plat_rt_versioned", "C18_plat_rt_windows", "C18_alias"], extra_targets=["Model/CorrTags.v"])
    pt.stream_swheel_platparse(ctx)
    pt.oracle_c18(ctx)
    ctx.coverage["rule"] = "PEP 427 names (name/version spellings x build tag x compressed tag sets x platform tags incl. ones ending in characters of '.whl'), random dash-joined near misses in the correspondence; platform strings of all documented families with multi-digit X_Y, aliases and near-miss names"


REGISTRY["C18"] = run_c18


PARSE_TRUST = BASE_TRUST + [
    "Model/SpecParse.v is a hand-written model of specifiers/__init__.py (_prefix_bounds, _from_pkg_specifier, from_specifierset, parse_version_specifier), "
    "RangeSpecifier/UnionSpecifier._simplified_form and __str__, utils.pad_zeros / first_different_index and contains(), over TOKENISED clauses (operator, parsed Version); "
    "`&` and `|` inside it are the GENERATED operators. The tie to the code is the S-parse stream (model vs implementation on texts; the implementation's rendered strings are tokenised by packaging and compared as clause sets)",
    "the text layer is packaging's and is not modelled: which strings SpecifierSet accepts, str(Version)/Version(text) round trip, the iteration order of a SpecifierSet (the theorems hold for every order: and-folds are order independent in meaning)",
    "clause_sem = packaging's Specifier.contains on FINAL releases is a model (PEP 440: comparison, prefix match with zero padding, compatible release); the S-parse stream compares it with the installed packaging on ~1900 (clause, version) pairs per run",
    "wf_clause (what packaging's grammar guarantees: ~= has two release segments, a wildcard has one) is checked on every tokenised clause of the stream",
    "ArbitrarySpecifier (===) is outside the model: decided by the direct oracle only",
]


def run_c17(ctx: Ctx):
    import sparse
    ctx.trusted_base = PARSE_TRUST
    props_spec.proof_step(ctx, "Props/C17.v", ["C17_clause", "C17_set", "C17_parse"], extra_targets=["Model/CorrParse.v", "Model/Corr.v"])
    if not any(b["kind"] == "translation" for b in ctx.broken):
        sparse.stream_sparse(ctx, 200 if ctx.tier == "quick" else 2500)
    pp.oracle_c17(ctx, _n(ctx, 1500, 30000))
    ctx.coverage["rule"] = ("specifier texts over the public PEP 440 grammar (epochs, 1-5 release segments, every pre/post/dev spelling and separator, case, leading zeros, v prefix, whitespace), near-miss invalid strings and "
                            "single-character mutations, || joins, <empty>; reference = packaging's SpecifierSet per alternative; S-parse: clauses, comma sets and || alternatives through the model")


def run_c06(ctx: Ctx):
    import sparse
    ctx.trusted_base = PARSE_TRUST + ["exclusion tilde_safe = the recorded defect tilde-max-post (known finding; C06_tilde_refuted is its machine-checked witness)"]
    props_spec.proof_step(ctx, "Props/C06.v", ["C06_value", "C06_reachable", "C06_tilde", "C06_nestar", "C06_tilde_refuted"], extra_targets=["Model/CorrParse.v", "Model/Corr.v"])
    if not any(b["kind"] == "translation" for b in ctx.broken):
        sparse.stream_sparse(ctx, 200 if ctx.tier == "quick" else 2500)
    pp.oracle_c06(ctx, _n(ctx, 1200, 20000))
    ctx.coverage["rule"] = ("parsed specifiers (fixed list hitting every rendering heuristic + random texts) and random &,|,~ trees over them; distinct = (class, number of ranges, bound-shape class: pre/post/dev/epoch/length mismatch); "
                            "S-parse: str() of reachable values tokenised and compared with the model's rendering, is_simple(), parse of the rendered alternatives")


def run_c04(ctx: Ctx):
    import sparse
    ctx.trusted_base = PARSE_TRUST + ["exclusion tilde_safe = the recorded defect tilde-max-post (known finding; C04_tilde_refuted is its machine-checked witness)",
                                      "candidates are final releases (the property's own restriction)"]
    props_spec.proof_step(ctx, "Props/C04.v", ["C04_clause", "C04_leaf", "C04_closure", "C04_empty_any", "C04_tilde_refuted"], extra_targets=["Model/CorrParse.v", "Model/Corr.v"])
    if not any(b["kind"] == "translation" for b in ctx.broken):
        sparse.stream_sparse(ctx, 200 if ctx.tier == "quick" else 2500)
        pairs = props_spec.corpus_pairs() + props_spec.spec_pairs(ctx, 400 if ctx.tier == "quick" else 6000, exhaustive=False)
        props_spec.stream_sgen(ctx, pairs, with_predicates=False)
    pp.oracle_c04(ctx, _n(ctx, 1200, 20000))
    ctx.coverage["rule"] = ("expression trees over parsed leaves; candidates = 39 fixed final releases plus final releases around every bound of the result; reference = Boolean combination of packaging's "
                            "SpecifierSet(leaf).contains(v); S-parse: contains() of reachable values and packaging's Specifier.contains vs the model; S-gen: the generated algebra vs the code")


REGISTRY["C17"] = run_c17
REGISTRY["C06"] = run_c06
REGISTRY["C04"] = run_c04


def run_c11(ctx: Ctx):
    import sbridge
    import sparse
    ctx.trusted_base = PARSE_TRUST + ["Model/Bridge.v is a hand-written model of MarkerExpression._get_specifier (comparison / ~= / wildcard operators), from_specifier (incl. the python_full_version zero padding) and of the version branch of _evaluate "
                                      "(= packaging's Specifier(op operand).contains(value) = clause_sem) over tokenised atoms; tied to the code by the S-bridge stream (specifier view compared structurally, evaluate() on an interpreter grid, from_specifier results)",
                                      "`in` / `not in` lists: the specifier VIEW is modelled (Bridge.in_view, theorems C11_in_view / C11_in_view_pv, BInView cases of S-bridge compare it structurally with .specifier); their evaluation is string containment (known finding pv-in-substring) and is decided by the direct oracle"]
    props_spec.proof_step(ctx, "Props/C11.v", ["C11_view", "C11_in_view", "C11_in_view_pv", "C11_in_view_runs", "C11_back", "C11_padding", "C11_merge", "C11_normalize", "C11_merge_pv", "C11_reversed", "C11_link", "C11_linked_ops", "C11_link_pv", "C11_linked_normaliser"], extra_targets=["Model/Bridge.v", "Model/CorrParse.v", "Model/Corr.v"])
    if not any(b["kind"] == "translation" for b in ctx.broken):
        sbridge.stream_sbridge(ctx)
        sparse.stream_sparse(ctx, 120 if ctx.tier == "quick" else 1500)
    pm.oracle_c11(ctx)
    ctx.coverage["rule"] = ("every operator x operand shape (1-3 release segments, pre/post/dev suffix, epoch, wildcards) x variable as atom; every simple specifier as from_specifier input; interpreters X.Y.Z on a grid around the operands; "
                            "S-bridge: the same through the model")


REGISTRY["C11"] = run_c11


def run_c07(ctx: Ctx):
    import smstr
    ctx.level = "proof"
    ctx.trusted_base = MARKER_PROOF_TRUST + ["Model/MarkerStr.v is a hand-written model of __str__ of every marker class (as a list of lexemes) and of the PEP 508 marker grammar as packaging parses it; tied by the S-mstr stream "
                                             "(lexed str(m) of reachable markers vs the model's rendering; the model's parse vs packaging's Marker(text)._markers, incl. malformed texts)",
                                             "lexing (quotes, whitespace, operator spelling) is packaging's tokeniser: observed by the harness lexer, not modelled",
                                             "the theorems are stated for renderable markers (rnd): non-empty compounds / groups without <empty> or universal children - what C15 claims of every result (known finding: one-child compounds are renderable)"] + MARKER_TRUST
    props_spec.proof_step(ctx, "Props/C07.v", ["C07_parses", "C07_meaning", "C07_reparse", "C07_specials"], extra_targets=["Model/MarkerStr.v", "Model/CorrMarker.v"])
    ctx.coverage["explanation"] = "theorems C07_parses / C07_meaning / C07_reparse / C07_specials over Model/MarkerStr.v + Model/Marker.v; S-mstr and S-mark tie the models to the code; the direct oracle re-parses str(m) with parse_marker and packaging and compares truth tables"
    smstr.stream_smstr(ctx, 150 if ctx.tier == "quick" else 2500)
    pm.oracle_c07(ctx, _n(ctx, 300, 5000))
    ctx.coverage["rule"] = GEN_RULE


REGISTRY["C07"] = run_c07


def run_c10(ctx: Ctx):
    import smark
    ctx.level = "proof"
    ctx.trusted_base = MARKER_PROOF_TRUST + [
        "Model/MarkerOpen.v is GENERATED from Model/Marker.v (harness/gen_open.py): the bodies of the mutually recursive normaliser over a record of callees; level_S (reflexivity) re-checks on every build that they are Marker.v's functions",
        "memoisation is modelled as the inductive family `reach`: cold computations, further steps over reachable callees, and cnf/dnf answering with what a reachable family returned for a ==-equal marker; "
        "_merge_single_markers (key: structurally equal atoms) and parse_marker (key: the text) return identical results on a hit and are not modelled; per-object lazy caches are not modelled",
        "the theorems are about MEANING; history independence of the rendered TEXT is decided by the direct oracle only (and fails for the recorded finding value-order-text-only)"] + MARKER_TRUST
    props_spec.proof_step(ctx, "Props/C10.v", ["C10_reach_sound", "C10_meaning", "C10_history_independent", "C10_history_independent_or", "step_sound", "level_S"], extra_targets=["Model/CorrMarker.v", "Model/MarkerOpen.v"])
    ctx.coverage["explanation"] = ("theorems C10_reach_sound / C10_meaning / C10_history_independent over Model/MarkerOpen.v (meaning is history independent); the direct oracle runs random histories over key-equal spelling families and compares "
                                   "text and truth table of the warm probe with the same probe run first in a fresh interpreter")
    smark.stream_smark(ctx, 40 if ctx.tier == "quick" else 600, with_parse=False, with_only=False, with_eval=False)
    pm.oracle_c10(ctx, _n(ctx, 250, 4000))
    ctx.coverage["rule"] = "random histories of parse/&/| over key-equal spelling families followed by a probe; warm result vs result of the same probe run first in a fresh interpreter"


REGISTRY["C10"] = run_c10
