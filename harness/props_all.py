"""props_all.py — registry of property runners."""
from __future__ import annotations

import random

import props_spec
import props_generic
from framework import BASE_TRUST, Ctx


def run_c14(ctx: Ctx):
    ctx.trusted_base = BASE_TRUST
    thms = ["C14_and_comm", "C14_or_comm", "C14_and_assoc", "C14_or_assoc", "C14_and_idem", "C14_or_idem", "C14_absorb_1",
            "C14_absorb_2", "C14_distr_1", "C14_distr_2", "C14_involution", "C14_demorgan_1", "C14_demorgan_2", "C14_complement"]
    props_spec.proof_step(ctx, "Props/C14.v", thms, extra_targets=["Model/Corr.v"])
    pairs = props_spec.run_c14_spec(ctx)
    if not any(b["kind"] == "translation" for b in ctx.broken):
        props_spec.stream_sgen(ctx, pairs[:600], with_predicates=False)
    try:
        import props_marker
        props_marker.oracle_c14_markers(ctx)
    except ImportError:
        ctx.notes.append("marker part of C14: oracle module not built yet")
    ctx.coverage["rule"] = ("triples of canonical interval sets (as C01) for 13 laws + complement as == of returned objects; "
                            "marker part: truth-table equivalence of both sides on an environment grid")


REGISTRY = {
    "C14": run_c14,
    "C19": props_generic.run_c19,
}
