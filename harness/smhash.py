"""smhash.py — the S-mhash correspondence stream: Model/MarkerHash.v (CPython's tuple hash, Set._hash and the dataclass
hash of every marker class, written out over Z) against hash(m) of marker objects in the running interpreter, and
Model/Marker.v's marker_eqb against == on pairs of objects (same members in another order, respelled, unrelated).
The hashes of the strings that occur (SipHash, keyed by PYTHONHASHSEED) are passed to the model as a table."""
from __future__ import annotations

import random

import coqrun
import markergen as mg
import smark
from framework import Ctx

OPORDER = ["==", "!=", "in", "not in", "<", "<=", ">", ">=", "~=", "==="]


def _strings(m, acc):
    k = mg.kind(m)
    if k == "MarkerExpression":
        acc.update((m.name, m.value))
    elif k in ("EqualityMarkerUnion", "InequalityMultiMarker"):
        acc.add(m.name)
        acc.update(m.values)
    elif k in ("MultiMarker", "MarkerUnion"):
        for c in m.markers:
            _strings(c, acc)


def cz(n: int) -> str:
    return f"({n})%Z" if n >= 0 else f"(Z.opp {-n})%Z"


def hcase(m) -> str:
    strs = {"any", "empty"}
    _strings(m, strs)
    tbl = "[" + "; ".join(f"({coqrun.cstr(s)}, {cz(hash(s))})" for s in sorted(strs)) + "]"
    ops = "[" + "; ".join(cz(hash(o)) for o in OPORDER) + "]"
    return f"HCase {ops} {tbl} {smark.cmarker(m)} {cz(hash(m))}"


def reorder(m, rng):
    """an object that must compare == to m: grouped values in another order (children keep their order)"""
    from dep_logic.utils import OrderedSet
    import dataclasses
    k = mg.kind(m)
    if k in ("EqualityMarkerUnion", "InequalityMultiMarker"):
        vals = list(m.values)
        rng.shuffle(vals)
        return dataclasses.replace(m, values=OrderedSet(vals))
    if k in ("MultiMarker", "MarkerUnion"):
        return type(m)(*[reorder(c, rng) for c in m.markers])
    return m


def stream_smhash(ctx: Ctx, n: int):
    import props_marker as pm
    rng = random.Random(ctx.seed + 991)
    cases, seen, objs = [], set(), []
    # grouped ==/!= atoms with two to six values (the objects whose hash goes through Set._hash), alone and inside compounds
    pool = ["nt", "posix", "java", "linux", "win32", "darwin", "cygwin", "aix", "", "x86_64", "a b"]
    grouped = []
    for _ in range(max(30, n // 4)):
        name = rng.choice(["os_name", "sys_platform", "platform_machine", "platform_system"])
        vals = rng.sample(pool, rng.randint(2, 6))
        t = (" or ".join(f'{name} == "{v}"' for v in vals)) if rng.random() < 0.5 else (" and ".join(f'{name} != "{v}"' for v in vals))
        if rng.random() < 0.4:
            t = f'({t}) {rng.choice(["and", "or"])} python_version >= "3.{rng.randint(6, 12)}"'
        try:
            grouped.append((f"parse({t!r})", pm.parse(t), [t]))
        except Exception:  # noqa: BLE001
            continue
    import itertools
    for desc, m, src in itertools.chain(grouped, pm.derived(ctx, n, salt=78)):
        try:
            cm = smark.cmarker(m)
        except Exception:  # noqa: BLE001
            continue
        if cm in seen:
            continue
        seen.add(cm)
        objs.append((desc, m))
        k = mg.kind(m)
        ctx.coverage["streams"][f"S-mhash-input:{k}"] = ctx.coverage["streams"].get(f"S-mhash-input:{k}", 0) + 1
        try:
            # an object that differs from m only in its attached caches (lazily computed _specifier) compares and hashes like m
            if k == "MarkerExpression":
                from dep_logic.markers.single import MarkerExpression
                fresh = MarkerExpression(m.name, m.op, m.value, m.reversed)
                try:
                    m.specifier
                except Exception:  # noqa: BLE001
                    pass
                ctx.count("S-mhash-cache-twins", 1)
                if not (fresh == m and m == fresh) or hash(fresh) != hash(m):
                    ctx.finding(f"m-cache|{m.op}|{m}", "an atom with a filled specifier cache and a fresh one with the same fields differ in == or hash", {"x": str(m)}, "equal, same hash",
                                [bool(fresh == m), hash(fresh), hash(m)])
            elif k in ("MultiMarker", "MarkerUnion"):
                fresh = type(m)(*m.markers)
                ctx.count("S-mhash-cache-twins", 1)
                if not (fresh == m and m == fresh) or hash(fresh) != hash(m):
                    ctx.finding(f"m-cache|{k}|{m}", "a compound rebuilt from its children differs from the original in == or hash", {"x": str(m)}, "equal, same hash",
                                [bool(fresh == m), hash(fresh), hash(m)])
            cases.append((hcase(m), f"hash: {desc} -> {str(m)!r}"))
            m2 = reorder(m, rng)
            if smark.cmarker(m2) != cm:
                cases.append((hcase(m2), f"hash(reordered): {desc} -> {str(m2)!r}"))
                cases.append((f"HEq {cm} {smark.cmarker(m2)} {coqrun.cbool(bool(m == m2))}", f"eq(reordered): {str(m)!r} vs {str(m2)!r}"))
                ctx.count("S-mhash-reordered-pairs", 1)
                if m == m2 and hash(m) != hash(m2):
                    ctx.finding(f"m-hash|{pm.shape(m)}|{m}|{m2}", "x == y but hash(x) != hash(y)", {"x": str(m), "y": str(m2)}, "equal hashes", [hash(m), hash(m2)])
        except Exception as e:  # noqa: BLE001
            ctx.finding(f"m-raise|{desc}", f"==/hash raised {type(e).__name__}", {"x": desc}, None, repr(e))
    for _ in range(min(len(objs), n)):
        (da, a), (db, b) = rng.choice(objs), rng.choice(objs)
        try:
            cases.append((f"HEq {smark.cmarker(a)} {smark.cmarker(b)} {coqrun.cbool(bool(a == b))}", f"eq: {str(a)!r} vs {str(b)!r}"))
        except Exception as e:  # noqa: BLE001
            ctx.finding(f"m-raise|{da}|{db}", f"== raised {type(e).__name__}", {"x": da, "y": db}, None, repr(e))
    terms = [c[0] for c in cases]
    total, bad, errs = coqrun.eval_cases(terms, f"{ctx.prop}-smhash", mod="Marker CorrMarker MarkerHash", casety="hcase", runner="run_hcases", shard=150, timeout=300)
    ctx.count("S-mhash", total)
    if errs:
        ctx.broke("correspondence", "S-mhash (evaluation failed)", "\n".join(errs[:3]))
        return
    if bad:
        i = bad[0]
        ctx.broke("correspondence", "S-mhash: Model/MarkerHash.v vs hash() / == of marker objects",
                  f"{len(bad)} of {len(cases)} cases differ; first: {cases[i][1]} :: {cases[i][0][:700]}; kinds: " + ", ".join(sorted({cases[j][1].split(':')[0] for j in bad})))
    if cases:
        ctx.sample({"stream": "S-mhash", "case": cases[len(cases) // 2][1]})
