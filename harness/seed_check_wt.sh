#!/bin/sh
# usage: seed_check_wt.sh <prop-id> <stored-name> [tier] ; applies seeded/<stored-name>/patch.diff in the scratch worktree /tmp/seedwt/<prop-id>
# and runs the property's check against that worktree (VERIF_REPO), leaving /repo untouched
PROP=$1; NAME=$2; TIER=${3:-quick}; WT=/tmp/seedwt/$PROP
cd $WT && git checkout -q -- src && git apply /verif/seeded/$NAME/patch.diff || exit 2
cd /verif
VERIF_REPO=$WT ./check $PROP --tier $TIER > /tmp/seedchk_$NAME.log 2>&1; rc=$?
echo "$NAME exit=$rc $(grep -c '^VIOLATION' /tmp/seedchk_$NAME.log) violations; $(grep -v '^KNOWN' /tmp/seedchk_$NAME.log | tail -1 | cut -c1-200)"
grep '^VIOLATION' /tmp/seedchk_$NAME.log | head -2
git -C $WT checkout -q -- src
