"""props_tags.py — direct oracles on the implementation for the tag properties
C08, C09, C16, C18 (searches for a failing input; theorems are in coq/Props)."""
from __future__ import annotations

import itertools
import random

from framework import Ctx

ARCHS_LINUX = ["x86_64", "aarch64", "armv7l", "ppc64le", "ppc64", "s390x", "riscv64"]
FLOOR = {"x86_64": 5, "x86": 5}


def mk_platform(osname, major, minor, arch):
    from dep_logic.tags import Platform
    from dep_logic.tags import os as O
    from dep_logic.tags.platform import Arch
    cls = {"manylinux": O.Manylinux, "musllinux": O.Musllinux, "macos": O.Macos}[osname]
    return Platform(cls(major, minor), Arch.parse(arch))


# ------------------------------------------------------------------------------ C09
def rule_manylinux(K, arch):
    floor = FLOOR.get(arch, 17)
    out = []
    for k in range(K, floor - 1, -1):
        out.append(f"manylinux_2_{k}_{arch}")
        if k == 17:
            out.append(f"manylinux2014_{arch}")
        if k == 12:
            out.append(f"manylinux2010_{arch}")
        if k == 5:
            out.append(f"manylinux1_{arch}")
    return out


def pkg_manylinux(K, arch):
    from packaging import _manylinux
    saved = (_manylinux._get_glibc_version, _manylinux._have_compatible_abi, _manylinux._get_manylinux_module)
    _manylinux._get_glibc_version = lambda: (2, K)
    _manylinux._have_compatible_abi = lambda *a, **k: True
    _manylinux._get_manylinux_module = lambda: None
    try:
        if hasattr(_manylinux._get_glibc_version, "cache_clear"):
            pass
        return list(_manylinux.platform_tags([arch]))
    finally:
        _manylinux._get_glibc_version, _manylinux._have_compatible_abi, _manylinux._get_manylinux_module = saved


def rule_mac(A, B, arch):
    """PEP rule: every release not newer than the target; formats <arch>, universal2 (back to
    10.4) and, on x86_64, intel / universal; fat* not claimed"""
    fm = {"x86_64": ["x86_64", "intel", "universal2", "universal"], "arm64": ["arm64", "universal2"]}[arch]
    out = []
    if A >= 11:
        for a in range(A, 10, -1):
            for f in fm:
                out.append(f"macosx_{a}_0_{f}")
        tail_formats = fm if arch == "x86_64" else ["universal2"]
        for b in range(16, 3, -1):
            for f in tail_formats:
                out.append(f"macosx_10_{b}_{f}")
    else:
        for b in range(B, 3, -1):
            for f in fm:
                out.append(f"macosx_10_{b}_{f}")
    return out


def nofat(tags):
    return [t for t in tags if "_fat" not in t]


def oracle_c09(ctx: Ctx, n=None):
    from packaging import tags as ptags
    from dep_logic.tags import Platform
    # manylinux 2.5 .. 2.50 x 7 architectures
    for arch in ARCHS_LINUX:
        for K in range(5, 51):
            ctx.count("oracle-C09", 1, nontrivial_key=("manylinux", arch, K))
            try:
                got = list(mk_platform("manylinux", 2, K, arch).compatible_tags)
            except Exception as e:  # noqa: BLE001
                ctx.finding(f"manylinux|raise|{arch}|{K}", f"compatible_tags raised {type(e).__name__}", {"platform": f"manylinux_2_{K}_{arch}"}, "a list", repr(e))
                continue
            exp = rule_manylinux(K, arch) + [f"linux_{arch}"]
            if got != exp:
                ctx.finding(f"manylinux|{arch}|{'alias' if set(got) ^ set(exp) and all('manylinux_2' not in t for t in set(got) ^ set(exp)) else 'range'}|{K}",
                            "manylinux tag list differs from the PEP 600 rule", {"platform": f"manylinux_2_{K}_{arch}"},
                            {"missing": [t for t in exp if t not in got][:6], "extra": [t for t in got if t not in exp][:6]}, got[:8])
            pk = pkg_manylinux(K, arch)
            if [t for t in got if t.startswith("manylinux")] != pk:
                ctx.finding(f"manylinux-pkg|{arch}|{K}", "manylinux tags/order differ from packaging.tags (glibc probe stubbed)",
                            {"platform": f"manylinux_2_{K}_{arch}"}, pk[:8], got[:8])
    for arch in ("x86_64", "aarch64"):
        for K in range(1, 6):
            ctx.count("oracle-C09", 1, nontrivial_key=("musllinux", arch, K))
            got = list(mk_platform("musllinux", 1, K, arch).compatible_tags)
            exp = {f"musllinux_1_{k}_{arch}" for k in range(1, K + 1)} | {f"linux_{arch}"}
            if set(got) != exp or len(got) != len(exp):
                ctx.finding(f"musllinux|{arch}|{K}", "musllinux tag set differs from PEP 656", {"platform": f"musllinux_1_{K}_{arch}"}, sorted(exp), got)
    for arch in ("x86_64", "arm64"):
        for (A, B) in [(10, b) for b in range(4, 17)] + [(a, b) for a in range(11, 31) for b in (0, 3)]:
            ctx.count("oracle-C09", 1, nontrivial_key=("macos", arch, A, B))
            try:
                got = nofat(list(mk_platform("macos", A, B, arch).compatible_tags))
            except Exception as e:  # noqa: BLE001
                ctx.finding(f"mac|raise|{arch}|{A}.{B}", f"compatible_tags raised {type(e).__name__}", {"platform": f"macos_{A}_{B}_{arch}"}, "a list", repr(e))
                continue
            exp = rule_mac(A, B, arch)
            if got != exp:
                cls = "10.x" if A == 10 else ("11" if A == 11 else ">=12")
                ctx.finding(f"mac|{arch}|{cls}|{A}.{B}", "macOS tag list differs from the rule (releases not newer than the target; <arch>, universal2, intel/universal)",
                            {"platform": f"macos_{A}_{B}_{arch}"},
                            {"missing": [t for t in exp if t not in got][:6], "extra": [t for t in got if t not in exp][:6]}, got[:6])
            if not (arch == "arm64" and A == 10):
                pk = nofat(list(ptags.mac_platforms((A, B), arch)))
                if got != pk:
                    ctx.finding(f"mac-pkg|{arch}|{A}.{B}", "macOS tags/order differ from packaging.tags.mac_platforms", {"platform": f"macos_{A}_{B}_{arch}"}, pk[:6], got[:6])
    for name, exp in (("windows_x86", ["win32"]), ("windows_amd64", ["win_amd64"]), ("windows_arm64", ["win_arm64"])):
        ctx.count("oracle-C09", 1, nontrivial_key=("windows", name))
        got = list(Platform.parse(name).compatible_tags)
        if got != exp:
            ctx.finding(f"windows|{name}", "windows tag differs", {"platform": name}, exp, got)
    # score = list order
    from dep_logic.tags import EnvSpec
    for plat in ("manylinux_2_28_x86_64", "macos_12_0_arm64", "macos_10_15_x86_64", "musllinux_1_2_aarch64"):
        e = EnvSpec.from_spec(">=3.8", plat)
        tags = [*e.platform.compatible_tags, "any"]
        scores = []
        for i, t in enumerate(tags):
            ctx.count("oracle-C09", 1)
            scores.append(e._evaluate_platform(t))
        # "the list order becomes the platform score": an accepted tag earlier in the list scores strictly higher (the values are not fixed)
        if any(x is None for x in scores) or any(not (a > b) for a, b in zip(scores, scores[1:])):
            ctx.finding(f"score|{plat}", "the platform score does not decrease strictly along the tag list", {"platform": plat, "tags": tags[:6]}, "strictly decreasing scores", scores[:12])
        if e._evaluate_platform("not_a_tag") is not None:
            ctx.finding(f"score-unknown|{plat}", "unknown platform tag accepted", {"platform": plat}, None, e._evaluate_platform("not_a_tag"))
    ctx.sample({"stream": "oracle-C09", "platform": "manylinux_2_28_aarch64", "tags": list(mk_platform("manylinux", 2, 28, "aarch64").compatible_tags)[:4]})
    ctx.coverage["exhaustive"] = True


ARCH_COQ = {"x86_64": "X86_64", "aarch64": "Aarch64", "arm64": "Aarch64", "armv7l": "Armv7L", "armv6l": "Armv6L", "ppc64le": "Powerpc64Le", "ppc64": "Powerpc64",
            "s390x": "S390X", "riscv64": "RISCV64", "x86": "X86", "loongarch64": "LoongArch64"}


def stream_splat(ctx: Ctx):
    """Model/Platform.v against platform.py: full tag lists (rendered) and scores, exhaustive over the grid"""
    import coqrun
    from dep_logic.tags import EnvSpec, Platform
    from dep_logic.tags import os as O
    from dep_logic.tags.platform import Arch
    grid = []
    for arch in ARCHS_LINUX + ["x86", "armv6l", "loongarch64"]:
        for K in list(range(5, 51)) + [0, 4, 60, 100]:
            grid.append(("Manylinux", 2, K, arch))
    for arch in ("x86_64", "aarch64"):
        for K in range(0, 7):
            grid.append(("Musllinux", 1, K, arch))
    for arch in ("x86_64", "arm64"):
        for (A, B) in [(10, b) for b in range(0, 18)] + [(a, b) for a in range(11, 32) for b in (0, 3)] + [(9, 0), (8, 5)]:
            grid.append(("Macos", A, B, arch))
    for arch in ("x86", "x86_64", "arm64", "armv7l"):
        grid.append(("Windows", 0, 0, arch))
    grid.append(("Macos", 12, 0, "armv7l"))
    terms = []
    for osn, A, B, arch in grid:
        os_ = O.Windows() if osn == "Windows" else getattr(O, osn)(A, B)
        p = Platform(os_, Arch.parse(arch))
        cp = f"(mkPlatform {'Windows' if osn == 'Windows' else f'({osn} {A} {B})'} {ARCH_COQ[arch]})"
        try:
            tags = list(p.compatible_tags)
            r = "(Ret [" + "; ".join(coqrun.cstr(t) for t in tags) + "])"
        except Exception as e:  # noqa: BLE001
            tags = None
            r = f"(Raise {type(e).__name__})"
        terms.append(f"PTags {cp} {r}")
        if tags is not None:
            e = EnvSpec.from_spec(">=3.8")
            e = type(e)(e.requires_python, p, None)
            alltags = tags + ["any"]
            for idx in sorted({0, len(alltags) // 2, len(alltags) - 1}):
                sc = e._evaluate_platform(alltags[idx])
                terms.append(f"PScore {cp} {idx}%nat {'None' if sc is None else f'(Some {sc}%nat)'}")
    total, bad, errs = coqrun.eval_cases(terms, f"{ctx.prop}-splat", mod="Platform CorrPlat", casety="pcase", runner="run_pcases", shard=150)
    ctx.count("S-plat", total)
    if errs:
        ctx.broke("correspondence", "S-plat (evaluation failed)", "\n".join(errs[:3]))
    if bad:
        ctx.broke("correspondence", "S-plat: Model/Platform.v vs platform.py", f"{len(bad)} of {total} cases differ; first: {terms[bad[0]][:400]}")
    ctx.sample({"stream": "S-plat", "case": terms[5][:200]})


# ------------------------------------------------------------------------------ C08
IMPLS = [None, ("cpython", False), ("cpython", True), ("pypy", False), ("pyston", False)]
SHORT = {"cpython": "cp", "pypy": "pp", "pyston": "pt"}


def tag_universe(minors):
    for X in (2, 3):
        for Y in minors:
            for pfx in ("cp", "pp", "pt", "py"):
                yield (pfx, X, Y)
        yield ("py", X, None)


def abi_tags(pfx, X, Y):
    out = ["none"]
    if Y is None:
        return out
    if pfx == "cp":
        out += ["abi3", f"cp{X}{Y}", f"cp{X}{Y}m", f"cp{X}{Y}t", f"cp{X}{Y}d", f"cp{X}{Y}dm", f"cp{X}{Y}mu", f"cp{X}{Y + 1}", f"cp{X}{Y}td", f"cp{X}{Y}0", f"cp{X}{Y}2t"]
    elif pfx == "pp":
        out += [f"pypy{X}{Y}_pp73", f"pypy_{X}{Y}", f"pp{X}{Y}", "abi3", f"pypy{X}{Y}0_pp73"]
    elif pfx == "pt":
        out += [f"pyston{X}{Y}_23", "abi3"]
    else:
        out += ["abi3", f"cp{X}{Y}"]
    return out


def rp_grid(rng, n):
    base = ["", ">=3.7", ">=3.6,<3.9", "<3", ">=2.7,<3.0", "==3.8.*", "!=3.8.*", ">=3.8.1", ">3.8.5,<3.8.9", "<=3.9", "==3.9", "==3.9.0",
            ">=3.7,<=3.10", "<3.6||>=3.10", ">=3.6,!=3.7.*,!=3.8.*", ">=3.10", "<3.10", ">=3.0,<3.1", ">=3", "<2.7", ">=4", "==3.12.1",
            ">3.20", "<=3.0", ">=3.6.2,<3.6.3", "~=3.7", "~=3.8.2", ">=2.7,!=3.0.*,!=3.1.*,!=3.2.*", "<3.20.1", ">=3.19.5"]
    out = list(base)
    for _ in range(n):
        Y1, Y2 = sorted(rng.sample(range(0, 22), 2))
        z = rng.choice([0, 1, 2, 5])
        out.append(rng.choice([f">=3.{Y1},<3.{Y2}", f">3.{Y1}.{z},<=3.{Y2}", f"<3.{Y1}||>=3.{Y2}.{z}", f">=3.{Y1}.{z}", f"<=3.{Y2}.{z}", f"==3.{Y1}.{z}"]))
    return out


def loadable(pfx, X, Y, abi, interp):
    """can interpreter (x, y, z) load a wheel tagged (pfx X Y?, abi)?  independent statement of the rule"""
    x, y, z = interp
    if abi == "abi3":
        # the property's rule: "cpXY-abi3 any interpreter >= X.Y" (no major restriction)
        return (x, y) >= (X, Y or 0)
    if x != X:
        return False
    if pfx == "py":
        return True if Y is None else y >= Y
    return y == Y


def oracle_c08(ctx: Ctx, n=None):
    from packaging.specifiers import SpecifierSet
    from dep_logic.tags import EnvSpec
    rng = random.Random(ctx.seed + 43)
    minors = list(range(0, 21)) if ctx.tier == "thorough" else [0, 5, 6, 7, 8, 9, 10, 12, 19, 20]
    rps = rp_grid(rng, 10 if ctx.tier == "quick" else 120)
    interps = [(x, y, z) for x in (2, 3, 4) for y in range(0, 23) for z in range(0, 12)]
    for rp in rps:
        sets = [SpecifierSet(p) for p in rp.split("||")]
        admitted = [i for i in interps if any(s.contains("%d.%d.%d" % i) for s in sets)]
        for impl in IMPLS:
            spec = EnvSpec.from_spec(rp, None, impl[0] if impl else None, impl[1] if impl else False)
            scored = []
            for (pfx, X, Y) in tag_universe(minors):
                ptag = f"{pfx}{X}{'' if Y is None else Y}"
                for abi in abi_tags(pfx, X, Y):
                    ctx.count("oracle-C08", 1, nontrivial_key=(rp, impl, pfx, abi.rstrip("0123456789")[:6], Y is None))
                    try:
                        got = spec._evaluate_python(ptag, abi)
                    except Exception as e:  # noqa: BLE001
                        ctx.finding(f"raise|{ptag}|{abi}", f"_evaluate_python raised {type(e).__name__}", {"requires_python": rp, "impl": impl, "tag": ptag, "abi": abi}, "tuple or None", repr(e))
                        continue
                    # side conditions
                    ok = True
                    if impl is not None and pfx not in (SHORT[impl[0]], "py"):
                        ok = False
                    abi_impl = abi.split("_", 1)[0].replace("pypy", "pp").replace("pyston", "pt").lower()
                    if abi_impl == "abi3":
                        if not (pfx == "cp" and (impl is None or not impl[1])):
                            ok = False
                        rank = 1
                    elif abi_impl == "none":
                        rank = 0
                    else:
                        rank = 2
                        if not abi_impl.startswith(ptag) or abi_impl[len(ptag):][:1].isdigit():
                            ok = False      # the ABI must name the same X.Y as the python tag
                        if impl is not None and abi_impl.endswith("t") != impl[1]:
                            ok = False
                    if ok:
                        ok = any(loadable(pfx, X, Y, abi_impl, i) for i in admitted)
                    exp = (X, Y or 0, rank) if ok else None
                    if exp is not None and got is not None:
                        # the property fixes the ORDER the score induces (interpreter version, then native ABI > abi3 > none), not its values
                        scored.append((exp, tuple(got)[:3], ptag, abi))
                    elif got != exp:
                        ctx.finding(f"compat|{pfx}{'XY' if Y is not None else 'X'}|{abi_impl.rstrip('0123456789') if abi_impl not in ('abi3', 'none') else abi_impl}|{'accepts' if got else 'rejects'}",
                                    "python/abi compatibility differs from 'some admitted interpreter can load it'",
                                    {"requires_python": rp, "implementation": impl, "python_tag": ptag, "abi_tag": abi}, exp, got)
            # order consistency of the scores of the accepted pairs of this spec
            scored.sort(key=lambda t: t[0])
            for (e1, g1, p1, a1), (e2, g2, p2, a2) in zip(scored, scored[1:]):
                if (e1 == e2 and g1 != g2) or (e1 < e2 and not g1 < g2):
                    ctx.finding(f"score-order|{e1}|{e2}", "the scores of two accepted wheels do not order them by interpreter version, then native ABI > abi3 > none",
                                {"requires_python": rp, "implementation": impl, "first": [p1, a1], "second": [p2, a2]}, {"expected_keys": [e1, e2]}, {"scores": [g1, g2]})
                    break
    # compatibility(): lexicographic max over the product
    spec = EnvSpec.from_spec(">=3.8", "manylinux_2_28_x86_64", "cpython")
    for pys, abis, plats in [(["cp39", "py3"], ["abi3", "none"], ["manylinux_2_17_x86_64", "any"]), (["py3"], ["none"], ["any"]),
                             (["cp38"], ["cp38"], ["manylinux2014_x86_64", "manylinux_2_5_x86_64"]), (["cp27"], ["none"], ["any"]), (["py3"], ["none"], ["win32"])]:
        ctx.count("oracle-C08", 1, nontrivial_key=("compat", tuple(pys), tuple(abis)))
        got = spec.compatibility(pys, abis, plats)
        cands = [spec._evaluate_python(p, a) for p in pys for a in abis]
        cands = [c for c in cands if c]
        pl = [spec._evaluate_platform(t) for t in plats]
        pl = [c for c in pl if c]
        exp = (*max(cands), max(pl)) if cands and pl else None
        if got != exp:
            ctx.finding(f"compatibility|{pys}|{abis}", "compatibility() is not the lexicographic maximum over the product", {"py": pys, "abi": abis, "plat": plats}, exp, got)
    ctx.sample({"stream": "oracle-C08", "requires_python": ">=3.7", "tag": "py36-none", "expected": [3, 6, 0]})


def stream_stags(ctx: Ctx):
    """Model/Tags.v against tags.py: _evaluate_python over the tag universe x requires_python x implementation settings,
    plus the string glue (abi normalisation, tag rendering) and parse_wheel_tags"""
    import coqrun
    import specgen as sg
    from dep_logic.tags import EnvSpec
    from dep_logic.tags.tags import parse_wheel_tags
    rng = random.Random(ctx.seed + 71)
    rps = rp_grid(rng, 6 if ctx.tier == "quick" else 60)
    minors = [0, 1, 6, 8, 9, 10, 12, 20] if ctx.tier == "quick" else list(range(0, 21))
    terms = []
    IMPL_COQ = {None: "None", ("cpython", False): "(Some (0, false))", ("cpython", True): "(Some (0, true))", ("pypy", False): "(Some (1, false))", ("pyston", False): "(Some (2, false))"}
    for rp in rps:
        for impl in IMPLS:
            spec = EnvSpec.from_spec(rp, None, impl[0] if impl else None, impl[1] if impl else False)
            crp = sg.cspec(spec.requires_python)
            for (pfx, X, Y) in tag_universe(minors):
                ptag = f"{pfx}{X}{'' if Y is None else Y}"
                for abi in abi_tags(pfx, X, Y) + ["CP%d%s" % (X, Y if Y is not None else ""), "none_x", "pypy%d%s_PP73" % (X, Y if Y is not None else "")]:
                    if rng.random() > (0.25 if ctx.tier == "quick" else 1.0):
                        continue
                    try:
                        r = spec._evaluate_python(ptag, abi)
                    except Exception:  # noqa: BLE001
                        continue
                    cr = "None" if r is None else f"(Some ({r[0]}, {r[1]}, {r[2]}))"
                    terms.append(f"TEval {crp} {IMPL_COQ[impl]} {coqrun.cstr(pfx)} {X} {'None' if Y is None else f'(Some {Y})'} {coqrun.cstr(abi)} {cr}")
    for abi in ["none", "abi3", "cp39", "cp39m", "pypy39_pp73", "pypy_39", "pyston38_23", "CP39", "PyPy39_pp73", "pypypy3", "pystonpypy_1", "x_pypy", "_", "", "pypyston", "cp310t", "pypy310"]:
        a = abi.split("_", 1)[0].replace("pypy", "pp").replace("pyston", "pt").lower()
        terms.append(f"TAbiImpl {coqrun.cstr(abi)} {coqrun.cstr(a)}")
    for (pfx, X, Y) in [("cp", 3, 10), ("py", 3, None), ("pp", 2, 7), ("cp", 3, 0), ("py", 2, 20)]:
        terms.append(f"TPyTag {coqrun.cstr(pfx)} {X} {'None' if Y is None else f'(Some {Y})'} {coqrun.cstr(pfx + str(X) + ('' if Y is None else str(Y)))}")
    names = ["foo-1.0-py3-none-any.whl", "foo-1.0-1-cp39.cp310-abi3.cp39-manylinux_2_17_x86_64.manylinux2014_x86_64.whl", "foo-1.0-py3-none-any.zip", "foo-1.0-py3-none.whl",
             "a-b-c-d-e-f-g.whl", ".whl", "x.whl", "protobuf-5.27.2-py3-none-manylinux_2_31_armv7l.whl", "x-1-py3-none-macosx_10_9_intel.whl", "foo-1.0--py3-none-any.whl",
             "foo-1.0-py3-none-any.whl.whl", "----.whl", "-----.whl", "a-b-c.d-e..f-g.whl", "whl", "foo-1-py3-none-win32.wh"]
    for fn in names:
        try:
            a, b, c = parse_wheel_tags(fn)
            r = "(Ret (%s, %s, %s))" % tuple("[" + "; ".join(coqrun.cstr(t) for t in x) + "]" for x in (a, b, c))
        except Exception as e:  # noqa: BLE001
            r = f"(Raise {type(e).__name__})"
        terms.append(f"TWheel {coqrun.cstr(fn)} {r}")
    total, bad, errs = coqrun.eval_cases(terms, f"{ctx.prop}-stags", mod="Platform Tags Corr CorrTags", casety="tcase", runner="run_tcases", shard=300)
    ctx.count("S-tags", total)
    if errs:
        ctx.broke("correspondence", "S-tags (evaluation failed)", "\n".join(errs[:3]))
    if bad:
        ctx.broke("correspondence", "S-tags: Model/Tags.v vs tags.py", f"{len(bad)} of {total} cases differ; first: {terms[bad[0]][:500]}")
    ctx.sample({"stream": "S-tags", "case": terms[len(terms) // 2][:300]})


def stream_swheel_platparse(ctx: Ctx):
    """Model/Tags.v parse_wheel_tags and Model/PlatParse.v against the implementation"""
    import coqrun
    from dep_logic.tags import Platform
    from dep_logic.tags import os as O
    from dep_logic.tags.tags import parse_wheel_tags
    rng = random.Random(ctx.seed + 79)
    terms = []
    parts_pool = ["foo", "foo_bar", "Foo.Bar", "1.0", "2!1.0.post1", "1", "2b", "py3", "py2.py3", "cp39.cp310", "none", "abi3", "cp39", "any", "manylinux_2_17_x86_64.manylinux2014_x86_64",
                  "win_amd64", "macosx_10_9_universal2", "manylinux_2_31_armv7l", "macosx_10_9_intel", "linux_armv6l", "", ".", "a.b.", "..", "whl", "x.whl"]
    for _ in range(600 if ctx.tier == "quick" else 6000):
        n = rng.choice([3, 4, 5, 5, 5, 6, 6, 7])
        fn = "-".join(rng.choice(parts_pool) for _ in range(n)) + rng.choice([".whl", ".whl", ".whl", ".zip", "", ".whl.whl", ".wh", "whl"])
        try:
            a, b, c = parse_wheel_tags(fn)
            r = "(Ret (%s, %s, %s))" % tuple("[" + "; ".join(coqrun.cstr(t) for t in x) + "]" for x in (a, b, c))
        except Exception as e:  # noqa: BLE001
            r = f"(Raise {type(e).__name__})"
        terms.append(f"TWheel {coqrun.cstr(fn)} {r}")
    names = ["linux", "windows", "macos", "alpine", "windows_amd64", "windows_x86", "windows_arm64", "macos_arm64", "macos_x86_64", "windows_i686", "windows_sparc", "windows_", "macos_", "linux_",
             "manylinux_2_17", "manylinux_2_17_", "manylinux__17_x86_64", "manylinux_2_x_x86_64", "manylinux_2_17_X86_64", "manylinux_2_17_x86-64", "macos_10_9_intel", "musllinux_1_2_ppc64le",
             "manylinux_02_017_x86_64", "macos_14_0_arm64_x", "manylinux_2_17_i686", "musllinux_1_1_amd64", "macos_12_3_x86_64", "manylinux_2_17_x86_64 ", " linux", "MANYLINUX_2_17_x86_64",
             "manylinux2014_x86_64", "macosx_10_9_x86_64", "manylinux_2_17_aarch64_", "manylinux_1_2_3_x86_64", "macos_1_2_3_4_arm64"]
    for ch in Platform.choices():
        for X, Y in [(1, 1), (2, 17), (10, 9), (11, 0), (2, 5), (12, 10), (100, 0), (2, 123), (0, 0)]:
            names.append(ch.replace("X", str(X)).replace("Y", str(Y)))
    MOD = (O.Manylinux, O.Musllinux, O.Macos, O.Windows)
    for nm in names:
        try:
            p = Platform.parse(nm)
            r = f"(Ret {cplatform(p)[6:-1]})" if isinstance(p.os, MOD) else "NotImpl"
        except Exception as e:  # noqa: BLE001
            n = type(e).__name__
            # names outside the versioned regex go on to the BSD/generic branch, which the model does not cover
            r = f"(Raise {n})" if n in ("ValueError",) and (nm.startswith("windows_") or _versioned_like(nm)) else "NotImpl"
        terms.append(f"TPlatParse {coqrun.cstr(nm)} {r}")
    for osn, A, B in [("Manylinux", 2, 17), ("Manylinux", 2, 123), ("Musllinux", 1, 2), ("Macos", 14, 0), ("Macos", 10, 9), ("Macos", 100, 20), ("Windows", 0, 0)]:
        for arch in ARCH_COQ:
            if arch == "arm64":
                continue
            from dep_logic.tags.platform import Arch
            os_ = O.Windows() if osn == "Windows" else getattr(O, osn)(A, B)
            p = Platform(os_, Arch.parse(arch))
            terms.append(f"TPlatStr {cplatform(p)[6:-1]} {coqrun.cstr(str(p))}")
    total, bad, errs = coqrun.eval_cases(terms, f"{ctx.prop}-swheel", mod="Platform Tags PlatParse Corr CorrTags", casety="tcase", runner="run_tcases", shard=300)
    ctx.count("S-wheel/S-platparse", total)
    if errs:
        ctx.broke("correspondence", "S-wheel/S-platparse (evaluation failed)", "\n".join(errs[:3]))
    if bad:
        ctx.broke("correspondence", "S-wheel/S-platparse: Model/Tags.v parse_wheel_tags / Model/PlatParse.v vs the implementation", f"{len(bad)} of {total} cases differ; first: {terms[bad[0]][:500]}")
    ctx.sample({"stream": "S-wheel", "case": terms[3][:200]})


def _versioned_like(nm):
    import re
    return re.match(r"(manylinux|macos|musllinux)_(\d+?)_(\d+?)_([a-z0-9_]+)$", nm) is not None


def cplatform(p):
    if p is None:
        return "None"
    o = p.os
    n = type(o).__name__
    os_c = "Windows" if n == "Windows" else f"({n} {o.major} {o.minor})"
    return f"(Some (mkPlatform {os_c} {ARCH_COQ[str(p.arch)]}))"


def stream_scmp(ctx: Ctx):
    """Model/Tags.v `compare` against EnvSpec.compare over pairs of the EnvSpec grid"""
    import coqrun
    import specgen as sg
    from dep_logic.tags import EnvSpec
    rng = random.Random(ctx.seed + 73)
    rps = ["", ">=3.7", ">=3.8", ">=3.6,<3.9", "==3.8.*", "<3", ">=3.10", "<3.6||>=3.10", ">=3.8.0", ">=3.8,<3.8.5", "<3.7"]
    plats = [None, "manylinux_2_17_x86_64", "manylinux_2_28_x86_64", "manylinux_2_17_aarch64", "musllinux_1_1_x86_64", "musllinux_1_2_x86_64", "macos_10_9_x86_64",
             "macos_10_15_x86_64", "macos_11_0_x86_64", "macos_12_0_arm64", "macos_14_0_arm64", "windows_amd64", "windows_x86", "manylinux_3_0_x86_64", "macos_11_3_arm64"]
    # every release of the property's configuration grid takes part (boundary releases such as macOS 10.16 / 11.0 included)
    plats += [f"macos_10_{k}_x86_64" for k in range(4, 17)] + [f"macos_{a}_{b}_{ar}" for a in range(11, 16) for b in (0, 1, 3) for ar in ("x86_64", "arm64")]
    plats += ["macos_10_16_arm64", "macos_10_9_arm64"] + [f"manylinux_2_{k}_{ar}" for k in (5, 12, 16, 17, 18, 24, 31, 35, 40) for ar in ("x86_64", "aarch64", "s390x", "i686")]
    plats += [f"musllinux_1_{k}_{ar}" for k in (1, 2, 3, 4, 5) for ar in ("x86_64", "aarch64")]
    plats = list(dict.fromkeys(plats))
    impls = [None, ("cpython", False), ("cpython", True), ("pypy", False)]
    IMPL_COQ = {None: "None", ("cpython", False): "(Some (0, false))", ("cpython", True): "(Some (0, true))", ("pypy", False): "(Some (1, false))"}
    specs = [(rp, pl, im) for rp in rps for pl in plats for im in impls]
    terms = []
    for _ in range(1500 if ctx.tier == "quick" else 20000):
        (ra, pa, ia), (rb, pb, ib) = rng.choice(specs), rng.choice(specs)
        if rng.random() < 0.15:
            rb, pb, ib = ra, pa, ia
        if rng.random() < 0.3:
            pb = pa if rng.random() < 0.5 else pb
            ib = ia
        if pa is not None and rng.random() < 0.45:
            # same OS family and architecture, another release: the only pairs on which compare() orders platforms
            fkey = lambda q: q if q.startswith("windows") else (q.split("_")[0], q.split("_", 3)[3])  # noqa: E731
            fam = [q for q in plats if q is not None and fkey(q) == fkey(pa)]
            pb = rng.choice(fam)
            if rng.random() < 0.7:
                rb, ib = ra, ia
        A = EnvSpec.from_spec(ra, pa, ia[0] if ia else None, ia[1] if ia else False)
        B = EnvSpec.from_spec(rb, pb, ib[0] if ib else None, ib[1] if ib else False)
        r = int(A.compare(B))
        terms.append(f"TCompare {sg.cspec(A.requires_python)} {cplatform(A.platform)} {IMPL_COQ[ia]} {sg.cspec(B.requires_python)} {cplatform(B.platform)} {IMPL_COQ[ib]} {r}")
    total, bad, errs = coqrun.eval_cases(terms, f"{ctx.prop}-scmp", mod="Platform Tags Corr CorrTags", casety="tcase", runner="run_tcases", shard=300)
    ctx.count("S-cmp", total)
    if errs:
        ctx.broke("correspondence", "S-cmp (evaluation failed)", "\n".join(errs[:3]))
    if bad:
        ctx.broke("correspondence", "S-cmp: Model/Tags.v compare vs EnvSpec.compare", f"{len(bad)} of {total} cases differ; first: {terms[bad[0]][:500]}")
    ctx.sample({"stream": "S-cmp", "case": terms[0][:300]})


# ------------------------------------------------------------------------------ C16
def oracle_c16(ctx: Ctx, n=None):
    from dep_logic.specifiers import parse_version_specifier
    from dep_logic.tags import EnvSpec
    from dep_logic.tags.tags import EnvCompatibility as EC
    rng = random.Random(ctx.seed + 47)
    rps = ["", ">=3.7", ">=3.8", ">=3.6,<3.9", ">=3.7,<3.9", "==3.8.*", ">=3.8,<3.8.5", "<3", ">=3.10", "<3.6||>=3.10", ">=3.11", "<3.7"]
    plats = [None, "manylinux_2_17_x86_64", "manylinux_2_28_x86_64", "manylinux_2_17_aarch64", "manylinux_2_35_aarch64", "musllinux_1_1_x86_64", "musllinux_1_2_x86_64",
             "macos_10_9_x86_64", "macos_10_15_x86_64", "macos_11_0_x86_64", "macos_12_0_arm64", "macos_14_0_arm64", "macos_11_3_arm64", "windows_amd64", "windows_x86", "windows_arm64",
             "manylinux_2_5_x86_64", "musllinux_1_1_aarch64"]
    impls = [None, ("cpython", False), ("cpython", True), ("pypy", False)]

    def mk(rp, pl, im):
        return EnvSpec.from_spec(rp, pl, im[0] if im else None, im[1] if im else False)

    def incl(a, b):
        """does requires_python b admit everything a admits (structural, via the algebra's own inverse-free test on probes)"""
        from specgen import smem
        from packaging.version import Version
        probes = [Version(f"{x}.{y}.{z}") for x in (2, 3, 4) for y in range(0, 14) for z in (0, 4, 5, 9)]
        sa, sb = parse_version_specifier(a), parse_version_specifier(b)
        return all((not smem(v, sa)) or smem(v, sb) for v in probes)

    wheels = [(["py3"], ["none"], ["any"]), (["cp38"], ["cp38"], ["manylinux2014_x86_64"]), (["cp39"], ["abi3"], ["manylinux_2_17_aarch64"]),
              (["cp310"], ["cp310"], ["macosx_11_0_arm64"]), (["py36"], ["none"], ["any"]), (["cp37"], ["cp37m"], ["win_amd64"]),
              (["cp311"], ["cp311"], ["musllinux_1_1_x86_64"]), (["cp38", "cp39"], ["abi3"], ["macosx_10_9_x86_64"]), (["py2", "py3"], ["none"], ["any"]),
              (["cp312"], ["cp312t"], ["manylinux_2_28_x86_64"]), (["cp39"], ["cp39"], ["macosx_10_15_universal2"]), (["pp39"], ["pypy39_pp73"], ["manylinux_2_17_x86_64"])]
    # widening requires_python
    for a, b in itertools.product(rps, rps):
        if not incl(a, b):
            continue
        for pl in plats[:8]:
            for im in impls:
                A, B = mk(a, pl, im), mk(b, pl, im)
                for w in wheels:
                    ctx.count("oracle-C16", 1, nontrivial_key=("widen-py", a, b, pl, im))
                    if A.compatibility(*w) is not None and B.compatibility(*w) is None:
                        ctx.finding(f"widen-py|{a}|{b}|{w[0]}|{w[1]}", "widening requires_python loses a wheel", {"narrow": a, "wide": b, "platform": pl, "impl": im, "wheel": w}, "compatible", None)
    # newer release of the same OS/arch accepts every tag
    fam = {}
    for pl in plats[1:]:
        if pl.startswith("windows"):
            continue
        osn = pl.split("_")[0]
        arch = pl.split("_", 3)[3]
        fam.setdefault((osn, arch), []).append(pl)
    extra = [(f"manylinux_2_{k}_{a}", f"manylinux_2_{k2}_{a}") for a in ("x86_64", "aarch64", "s390x") for k, k2 in ((17, 18), (5, 12), (12, 17), (20, 40), (17, 50))]
    extra += [(f"musllinux_1_{k}_x86_64", f"musllinux_1_{k + 1}_x86_64") for k in (1, 2, 3, 4)]
    extra += [(f"macos_{a}_{b}_{ar}", f"macos_{a2}_{b2}_{ar}") for ar in ("x86_64", "arm64") for (a, b, a2, b2) in ((10, 9, 10, 15), (10, 15, 11, 0), (11, 0, 11, 5), (11, 0, 14, 0), (12, 3, 13, 0))
              if not (ar == "arm64" and a == 10)]
    pairs = [(x, y) for v in fam.values() for x in v for y in v] + extra
    for x, y in pairs:
        px, py = EnvSpec.from_spec(">=3.8", x).platform, EnvSpec.from_spec(">=3.8", y).platform
        if type(px.os) is not type(py.os) or px.arch != py.arch:
            continue
        if (px.os.major, px.os.minor) <= (py.os.major, py.os.minor):
            ctx.count("oracle-C16", 1, nontrivial_key=("widen-plat", x, y))
            missing = [t for t in px.compatible_tags if t not in py.compatible_tags]
            if missing:
                ctx.finding(f"widen-plat|{x.split('_')[0]}|{px.arch}|{x}|{y}", "a newer release of the same OS/arch rejects a tag the older accepts", {"older": x, "newer": y}, "nested tag sets", missing[:5])
    # compare()
    specs = [mk(rp, pl, im) for rp in rps[:7] for pl in plats for im in impls[:3]]
    specs += [mk(">=3.8", a, None) for a, _ in extra] + [mk(">=3.8", b, None) for _, b in extra]
    rng.shuffle(specs)
    specs = specs[: 70 if ctx.tier == "quick" else 400]
    for A in specs:
        ctx.count("oracle-C16", 1)
        if A.compare(A) != EC.LOWER_OR_EQUAL:
            ctx.finding(f"cmp-refl|{A}", "compare is not reflexive", {"spec": str(A)}, "LOWER_OR_EQUAL", str(A.compare(A)))
    for A, B in itertools.product(specs, specs):
        ctx.count("oracle-C16", 1, nontrivial_key=("cmp", str(A.platform), str(B.platform), str(A.requires_python), str(B.requires_python)))
        ab, ba = A.compare(B), B.compare(A)
        if (ab == EC.INCOMPATIBLE) != (ba == EC.INCOMPATIBLE):
            ctx.finding(f"cmp-sym|{A.platform}|{B.platform}", "INCOMPATIBLE is not symmetric", {"a": str(A), "b": str(B)}, str(ab), str(ba))
        if ab == EC.HIGHER and ba == EC.HIGHER:
            ctx.finding(f"cmp-higher|{A.platform}|{B.platform}", "HIGHER in both directions", {"a": str(A), "b": str(B)}, None, "HIGHER/HIGHER")
        if A.platform is not None and B.platform is not None and ab in (EC.LOWER_OR_EQUAL, EC.HIGHER):
            lo, hi = (A, B) if ab == EC.LOWER_OR_EQUAL else (B, A)
            missing = [t for t in lo.platform.compatible_tags if t not in hi.platform.compatible_tags]
            if missing:
                osn = type(A.platform.os).__name__
                ctx.finding(f"cmp-nest|{osn}|{A.platform}|{B.platform}", f"compare answers {ab.name} but the platform tag sets are not nested accordingly",
                            {"a": str(A), "b": str(B)}, "nested", missing[:5])
    # compare() against tag-set nesting over every ordered pair of releases of one OS family and architecture (the property's grid)
    grid = {("macos", "x86_64"): [f"macos_10_{k}_x86_64" for k in range(4, 17)] + [f"macos_{a}_{b}_x86_64" for a in range(11, 16) for b in range(0, 4)],
            ("macos", "arm64"): [f"macos_10_{k}_arm64" for k in (9, 15, 16)] + [f"macos_{a}_{b}_arm64" for a in range(11, 16) for b in range(0, 4)]}
    for ar in ("x86_64", "aarch64", "i686", "ppc64le", "s390x", "armv7l", "riscv64"):
        grid[("manylinux", ar)] = [f"manylinux_2_{k}_{ar}" for k in range(5, 41)]
    for ar in ("x86_64", "aarch64"):
        grid[("musllinux", ar)] = [f"musllinux_1_{k}_{ar}" for k in range(1, 6)]
    for (osn, ar), names in grid.items():
        fam_specs = []
        for nm in names:
            try:
                sp = mk(">=3.8", nm, None)
                fam_specs.append((nm, sp, set(sp.platform.compatible_tags)))
            except Exception:  # noqa: BLE001  (unsupported combination: not a spec)
                continue
        if ctx.tier == "quick" and len(fam_specs) > 14:
            keep = set(rng.sample(range(len(fam_specs)), 10)) | {i for i, (nm, _, _) in enumerate(fam_specs) if nm.startswith(("macos_10_16", "macos_11_0", "macos_10_15", "manylinux_2_17", "manylinux_2_5_"))}
            fam_specs = [f for i, f in enumerate(fam_specs) if i in keep]
        for (na, A, ta), (nb, B, tb) in itertools.product(fam_specs, fam_specs):
            ctx.count("oracle-C16", 1, nontrivial_key=("cmp-grid", na, nb))
            ab = A.compare(B)
            if ab in (EC.LOWER_OR_EQUAL, EC.HIGHER):
                lo, hi = (ta, tb) if ab == EC.LOWER_OR_EQUAL else (tb, ta)
                if not lo <= hi:
                    ctx.finding(f"cmp-nest|{type(A.platform.os).__name__}|{na}|{nb}", f"compare answers {ab.name} but the platform tag sets are not nested accordingly",
                                {"a": str(A), "b": str(B)}, "nested", sorted(lo - hi)[:5])
            if ab == EC.HIGHER and B.compare(A) == EC.HIGHER:
                ctx.finding(f"cmp-higher|{na}|{nb}", "HIGHER in both directions", {"a": str(A), "b": str(B)}, None, "HIGHER/HIGHER")
    ctx.sample({"stream": "oracle-C16", "pair": ["(>=3.8, musllinux_1_2_x86_64)", "(>=3.8, musllinux_1_1_x86_64)"]})


# ------------------------------------------------------------------------------ C18
def oracle_c18(ctx: Ctx, n=None):
    from packaging.utils import parse_wheel_filename
    from dep_logic.tags import EnvSpec, Platform
    from dep_logic.tags.tags import InvalidWheelFilename, parse_wheel_tags
    rng = random.Random(ctx.seed + 53)
    names = ["foo", "foo_bar", "Foo.Bar", "a", "zope.interface", "protobuf", "x_y_z"]
    versions = ["1.0", "2.3.1", "1.0a1", "2!1.0.post1", "0.1.dev0", "1.0+local.1", "2024.1.1"]
    builds = [None, "1", "2b", "123abc"]
    pys = [["py3"], ["py2", "py3"], ["cp39"], ["cp38", "cp39", "cp310"], ["pp39"]]
    abis = [["none"], ["abi3"], ["cp39"], ["cp39", "abi3"], ["pypy39_pp73"]]
    plats = [["any"], ["manylinux_2_17_x86_64", "manylinux2014_x86_64"], ["win_amd64"], ["macosx_10_9_universal2"], ["manylinux_2_31_armv7l"],
             ["macosx_10_9_intel"], ["linux_armv6l"], ["win32"], ["macosx_11_0_arm64", "macosx_10_9_x86_64"], ["musllinux_1_1_aarch64"], ["macosx_10_6_universal"]]
    combos = list(itertools.product(names, versions, builds, pys, abis, plats))
    rng.shuffle(combos)
    combos = combos[: 1500 if ctx.tier == "quick" else 20000]
    for nm, ver, build, py, abi, plat in combos:
        fn = "-".join([nm, ver] + ([build] if build else []) + [".".join(py), ".".join(abi), ".".join(plat)]) + ".whl"
        try:
            _, _, _, tagset = parse_wheel_filename(fn)
        except Exception:  # noqa: BLE001
            continue
        ctx.count("oracle-C18", 1, nontrivial_key=(build is not None, len(py), len(abi), len(plat), plat[-1][-3:], "_" in nm or "." in nm))
        exp = (sorted({t.interpreter for t in tagset}), sorted({t.abi for t in tagset}), sorted({t.platform for t in tagset}))
        try:
            got = parse_wheel_tags(fn)
            got = tuple(sorted(set(x)) for x in got)
        except Exception as e:  # noqa: BLE001
            got = repr(e)
        if got != exp:
            ctx.finding(f"wheel|{plat[-1][-4:]}|{len(py)}{len(abi)}{len(plat)}|{build is not None}", "wheel tag sets differ from packaging.utils.parse_wheel_filename",
                        {"filename": fn}, exp, got)
    for bad in ["foo-1.0-py3-none-any.zip", "foo-1.0-py3-none-any", "foo-1.0-py3-none.whl", "foo-1.0-1-2-py3-none-any.whl", "foo.whl", "foo-1.0-py3-none-any.whl.txt", ".whl", "a-b-c-d-e-f-g.whl"]:
        ctx.count("oracle-C18", 1, nontrivial_key=("bad", bad))
        try:
            r = parse_wheel_tags(bad)
            ctx.finding(f"bad-accepted|{bad}", "malformed wheel name accepted", {"filename": bad}, "InvalidWheelFilename", repr(r))
        except InvalidWheelFilename:
            pass
        except Exception as e:  # noqa: BLE001
            ctx.finding(f"bad-exc|{bad}", f"malformed wheel name raised {type(e).__name__} instead of InvalidWheelFilename", {"filename": bad}, "InvalidWheelFilename", repr(e))
    # wheel_compatibility sees what parse_wheel_tags reports
    spec = EnvSpec.from_spec(">=3.8", "manylinux_2_31_armv7l")
    for fn, exp_ok in [("protobuf-5.27.2-py3-none-manylinux_2_31_armv7l.whl", True), ("x-1-py3-none-any.whl", True), ("x-1-1-cp39-abi3-manylinux_2_17_armv7l.manylinux2014_armv7l.whl", True),
                       ("x-1-cp39-cp39-win32.whl", False)]:
        ctx.count("oracle-C18", 1)
        got = spec.wheel_compatibility(fn)
        if (got is not None) != exp_ok:
            ctx.finding(f"wheelcompat|{fn}", "wheel_compatibility verdict differs", {"filename": fn}, exp_ok, got)
    # platform names
    aliases = {"linux": "manylinux_2_17_x86_64", "windows": "windows_amd64", "macos": "macos_14_0_arm64", "alpine": "musllinux_1_2_x86_64",
               "macos_arm64": "macos_14_0_arm64", "macos_x86_64": "macos_14_0_x86_64", "windows_amd64": "windows_amd64", "windows_x86": "windows_x86", "windows_arm64": "windows_arm64"}
    for name, target in aliases.items():
        ctx.count("oracle-C18", 1, nontrivial_key=("alias", name))
        try:
            p = Platform.parse(name)
            if str(p) != target or Platform.parse(str(p)) != p:
                ctx.finding(f"alias|{name}", "platform alias does not resolve to its documented target / round trip", {"name": name}, target, str(p))
        except Exception as e:  # noqa: BLE001
            ctx.finding(f"alias-raise|{name}", f"Platform.parse raised {type(e).__name__}", {"name": name}, target, repr(e))
    for ch in Platform.choices():
        for X, Y in [(1, 1), (2, 17), (10, 9), (11, 0), (14, 2), (2, 5), (12, 10), (100, 0), (2, 123)]:
            s = ch.replace("X", str(X)).replace("Y", str(Y))
            ctx.count("oracle-C18", 1, nontrivial_key=("choice", ch, len(str(X)), len(str(Y))))
            try:
                p = Platform.parse(s)
                back = Platform.parse(str(p))
                if back != p:
                    ctx.finding(f"plat-rt|{ch}", "Platform.parse(str(p)) != p", {"name": s}, repr(p), repr(back))
                if "X" in ch and (getattr(p.os, "major", None), getattr(p.os, "minor", None)) != (X, Y):
                    ctx.finding(f"plat-ver|{ch}|{len(str(X))}{len(str(Y))}", "platform version parsed wrongly", {"name": s}, [X, Y], [getattr(p.os, "major", None), getattr(p.os, "minor", None)])
            except Exception as e:  # noqa: BLE001
                ctx.finding(f"plat-raise|{ch}", f"Platform.parse raised {type(e).__name__}", {"name": s}, "a platform", repr(e))
            if "X" not in ch:
                break
    ctx.sample({"stream": "oracle-C18", "filename": "protobuf-5.27.2-py3-none-manylinux_2_31_armv7l.whl"})


def oracle_gap_c08(ctx: Ctx):
    """adjacent versions (no version between X.Y and X.Y.post0.dev0): a requires_python that admits no version must not accept any
    wheel (recorded finding adjacent-gap, cf. C05_gap_refuted)"""
    from dep_logic.tags import EnvSpec
    for rp, ptag, abi in ((">3.9,<3.9.post0.dev0", "cp39", "cp39"), (">3.10,<3.10.post0.dev0", "py3", "none"), (">3.8,<3.8.post0.dev0", "cp38", "abi3")):
        ctx.count("oracle-gap", 1, nontrivial_key=("gap", rp))
        try:
            got = EnvSpec.from_spec(rp)._evaluate_python(ptag, abi)
        except Exception as e:  # noqa: BLE001
            ctx.finding(f"gap-raise|{rp}", f"_evaluate_python raised {type(e).__name__}", {"requires_python": rp, "tag": ptag, "abi": abi}, None, repr(e))
            continue
        if got is not None:
            ctx.finding(f"adjacent-gap|{rp}|{ptag}-{abi}", "a requires_python that admits no version (adjacent bounds) accepts a wheel",
                        {"requires_python": rp, "tag": ptag, "abi": abi}, expected=None, observed=got)


def oracle_gap_c16(ctx: Ctx):
    """the same gap seen through monotonicity: A admits no version, so B admits every version A admits - yet A accepts a wheel B rejects"""
    from dep_logic.tags import EnvSpec
    for ra, rb, ptag, abi in ((">3.9,<3.9.post0.dev0", "<3.0", "cp39", "cp39"), (">3.10,<3.10.post0.dev0", ">=3.11", "cp310", "cp310")):
        ctx.count("oracle-gap", 1, nontrivial_key=("gap", ra))
        try:
            a = EnvSpec.from_spec(ra)._evaluate_python(ptag, abi)
            b = EnvSpec.from_spec(rb)._evaluate_python(ptag, abi)
        except Exception as e:  # noqa: BLE001
            ctx.finding(f"gap-raise|{ra}", f"_evaluate_python raised {type(e).__name__}", {"A": ra, "B": rb}, None, repr(e))
            continue
        if a is not None and b is None:
            ctx.finding(f"adjacent-gap|{ra}|{rb}|{ptag}-{abi}", "B admits every version A admits (A admits none: adjacent bounds), yet a wheel compatible with A is not compatible with B",
                        {"A": ra, "B": rb, "tag": ptag, "abi": abi}, expected="compatible with B", observed={"A": a, "B": b})
