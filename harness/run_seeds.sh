#!/bin/sh
# usage: run_seeds.sh [seed ...]   applies each stored seeded change to /repo, runs the check of the property
# it breaks (quick tier), reverts, and prints one line per seed.  Never leaves /repo modified.
cd /verif
[ -z "$(git -C /repo status --porcelain)" ] || { echo "/repo is not clean"; exit 2; }
SEEDS=${@:-$(ls seeded)}
for s in $SEEDS; do
  prop=$(python3 -c "import json;print(json.load(open('seeded/$s/meta.json'))['breaks_property'])")
  if ! git -C /repo apply /verif/seeded/$s/patch.diff 2>/dev/null; then echo "$s ($prop): PATCH-DOES-NOT-APPLY"; continue; fi
  out=$(timeout 1200 ./check $prop 2>&1); rc=$?
  git -C /repo checkout -- . ; git -C /repo clean -fdq src
  v=$(echo "$out" | grep -c '^VIOLATION')
  nf=$(echo "$out" | grep -c 'no-failing-input-found')
  echo "$s ($prop): exit=$rc violations=$v no-failing-input=$nf  $(echo "$out" | tail -1 | cut -c1-150)"
done
