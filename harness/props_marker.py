"""props_marker.py — direct oracles on the implementation for the marker properties
(C02, C03, C07, C10, C11, C12, C13/C14 marker part, C15).  These are searches for a
failing input; the theorems live in coq/Props."""
from __future__ import annotations

import itertools
import random

import markergen as mg
from framework import Ctx, Timeout, with_timeout

CASE_TIMEOUT = 4.0


def clear_caches():
    """clear every functools cache reachable from the dep_logic modules (not only the four
    the pinned tree has: a change may add one)"""
    import sys as _sys
    seen = set()
    for name, mod in list(_sys.modules.items()):
        if not (name == "dep_logic" or name.startswith("dep_logic.")) or mod is None:
            continue
        for obj in list(vars(mod).values()):
            cands = [obj]
            if isinstance(obj, type):
                for v in vars(obj).values():
                    cands.append(getattr(v, "__func__", v))
            for c in cands:
                cc = getattr(c, "cache_clear", None)
                if callable(cc) and id(c) not in seen:
                    seen.add(id(c))
                    try:
                        cc()
                    except Exception:  # noqa: BLE001
                        pass


def fresh_results(jobs):
    """run each job first in a fresh interpreter (fork of a process that never imported dep_logic)"""
    import json
    import subprocess
    import sys as _sys
    from pathlib import Path
    script = Path(__file__).resolve().parent / "fresh_probe.py"
    inp = "\n".join(json.dumps(j, default=lambda o: sorted(o) if isinstance(o, set) else str(o)) for j in jobs) + "\n"
    p = subprocess.run([_sys.executable, str(script)], input=inp, capture_output=True, text=True, timeout=900)
    out = [json.loads(l) for l in p.stdout.splitlines() if l.startswith("{")]
    return out if len(out) == len(jobs) else None


def parse(t):
    from dep_logic.markers import parse_marker
    return parse_marker(t)


def ev(m, env):
    return m.evaluate(env)


def gen_texts(ctx: Ctx, n, depth=2, salt=0):
    rng = random.Random(ctx.seed * 7 + salt)
    return [mg.marker_text(rng, depth=rng.choice([1, depth, depth])) for _ in range(n)]


def safe(ctx, stream, thunk):
    """run an implementation call under the per-case alarm; returns (ok, value)"""
    try:
        return True, with_timeout(CASE_TIMEOUT, thunk)
    except Timeout:
        ctx.coverage["streams"][stream + "-timeouts"] = ctx.coverage["streams"].get(stream + "-timeouts", 0) + 1
        return False, None


def shape(m):
    return mg.kind(m)


# ------------------------------------------------------------------------------ C02
def oracle_c02(ctx: Ctx, n):
    rng = random.Random(ctx.seed + 11)
    texts = CORPUS_TEXTS + gen_texts(ctx, n, salt=2)
    parsed = []
    for t in texts:
        ok, m = safe(ctx, "oracle-C02", lambda: parse(t))
        if ok:
            parsed.append((t, m))
    for i in range(n):
        (ta, a), (tb, b) = rng.choice(parsed), rng.choice(parsed)
        if i < len(CORPUS_PAIRS):
            ta, tb = CORPUS_PAIRS[i]
            a, b = parse(ta), parse(tb)
        envs = mg.env_grid([ta, tb], rng, limit=24)
        for opname, f, comb in (("and", lambda: a & b, lambda x, y: x and y), ("or", lambda: a | b, lambda x, y: x or y)):
            ok, r = safe(ctx, "oracle-C02", f)
            if not ok:
                continue
            ctx.count("oracle-C02", 1, nontrivial_key=(opname, shape(a), shape(b), shape(r), tuple(sorted(mg.variables(a) & mg.variables(b)))))
            for env in envs:
                try:
                    exp = comb(ev(a, env), ev(b, env))
                    got = ev(r, env)
                except Exception as e:  # noqa: BLE001
                    ctx.finding(f"eval-raise|{opname}|{ta}|{tb}", f"evaluate raised {type(e).__name__}", {"a": ta, "b": tb, "env": _envs(env)}, None, repr(e))
                    break
                if exp != got:
                    ctx.finding(f"{env_class([ta, tb], env)}{opname}|{ta}|{tb}", f"(a {'&' if opname == 'and' else '|'} b).evaluate differs from the combination of the operands",
                                {"a": ta, "b": tb, "env": _envs(env)}, exp, {"result": str(r), "value": got})
                    break
            else:
                if r.is_empty() and any(comb(ev(a, e), ev(b, e)) for e in envs):
                    ctx.finding(f"is_empty|{opname}|{ta}|{tb}", "result reports is_empty() but some environment satisfies it", {"a": ta, "b": tb}, False, True)
                if r.is_any() and not all(comb(ev(a, e), ev(b, e)) for e in envs):
                    ctx.finding(f"is_any|{opname}|{ta}|{tb}", "result reports is_any() but some environment does not satisfy it", {"a": ta, "b": tb}, False, True)
    for ta, tb, conn, env0 in KNOWN_WITNESSES:
        env = witness_env(env0)
        ok, r = safe(ctx, "oracle-C02", lambda: (parse(ta) & parse(tb)) if conn == "and" else (parse(ta) | parse(tb)))
        if not ok:
            continue
        ctx.count("oracle-C02", 1, nontrivial_key=("witness", ta, tb))
        x, y = ev(parse(ta), env), ev(parse(tb), env)
        exp = (x and y) if conn == "and" else (x or y)
        got = ev(r, env)
        if got != exp:
            ctx.finding(f"{env_class([ta, tb], env)}{conn}|{ta}|{tb}", "a & b / a | b does not evaluate as the conjunction / disjunction of its operands",
                        {"a": ta, "b": tb, "env": _envs(env)}, exp, {"result": str(r), "value": got})
    ctx.sample({"stream": "oracle-C02", "a": parsed[0][0], "b": parsed[-1][0]})


# Fixed witnesses of the recorded finding classes: (a, b, connective, environment).  On the unchanged tree `a <connective> b` and the text
# `a <connective> b` violate C02 / C03 in that environment, so the checks print the KNOWN-FINDING line of each class on every run
# (and stop printing it as soon as the defect is gone).
KNOWN_WITNESSES = [
    ('python_version in "3.9, 3.10"', 'python_version < "3.5"', "and", {"python_version": "3.1", "python_full_version": "3.1.0"}),          # pv-in-substring
    ('python_version <= "3.8.1"', 'python_full_version >= "3.8.3"', "and", {"python_version": "3.8", "python_full_version": "3.8.5"}),   # pv-long-operand
    ('python_full_version < "3.13"', 'python_full_version >= "3.13"', "or", {"python_version": "3.13", "python_full_version": "3.13.0a1"}),  # nonfinal-env
    ('python_full_version >= "3.7.0"', 'python_full_version < "3.8.post1"', "and", {"python_version": "3.8", "python_full_version": "3.8.0"}),     # tilde-max-post
]


def witness_env(env):
    e = {"os_name": "posix", "sys_platform": "linux", "platform_machine": "x86_64", "platform_system": "Linux", "platform_release": "5.4.0", "platform_version": "#1 SMP",
         "implementation_name": "cpython", "implementation_version": "3.8.1", "platform_python_implementation": "CPython", "extra": set()}
    e.update(env)
    return e


def pv_long_operand(texts):
    """does some atom compare python_version with an operand that keeps more than two meaningful release segments
    (non-zero third segment; for ~=: four segments or a non-zero third)? python_version is always X.Y, so such atoms are
    constant or redundant; the code merges them with python_full_version atoms as if they were full versions (recorded finding)"""
    import re
    found = set()      # the minor series X.Y of the long operands: the only interpreters on which such an atom is decided differently
    for t in texts:
        for m in re.finditer(r'python_version\s*(~=|==|!=|<=|>=|<|>)\s*"([^"]*)"|"([^"]*)"\s*(~=|==|!=|<=|>=|<|>)\s*python_version', t or ""):
            op, lit = (m.group(1), m.group(2)) if m.group(1) else (m.group(4), m.group(3))
            rel = re.match(r"\s*(?:\d+!)?(\d+(?:\.\d+)*)", lit)
            if not rel:
                continue
            r = [int(x) for x in rel.group(1).split(".")]
            if op == "~=":
                if len(r) >= 4 or (len(r) == 3 and r[2] != 0):
                    found.add((r[0], r[1]))
            elif any(x != 0 for x in r[2:]):
                found.add((r[0], r[1]))
    return found


def _add_bound(bounds, lit):
    import re
    mm = re.match(r"\s*(\d+(?:\.\d+)*)", lit)
    if mm:
        r = tuple(int(x) for x in mm.group(1).split("."))
        bounds.add((r + (0, 0, 0))[:3])
        # the derived bounds: X.(Y+1).0 of python_version > / <= X.Y, the upper ends of ~=V and of the wildcards V.*
        r3 = (r + (0, 0))[:3] if len(r) < 3 else r
        for i in range(min(len(r3), 3)):
            bounds.add((tuple(r3[:i]) + (r3[i] + 1,) + (0, 0, 0))[:3])


def atoms_agree(texts, env) -> bool:
    """does every atom occurring in the texts, taken ALONE, evaluate in env as packaging evaluates it?  (atoms on `extra` are skipped:
    they involve no version)  The recorded defect nonfinal-env is about COMBINATIONS only; an atom that already disagrees alone is new.
    The texts may be descriptions of derived operands ("[child ... of the left operand] |& [...]"), so atoms are found by pattern."""
    import re
    from packaging.markers import Marker
    ops = r"(?:~=|===|==|!=|<=|>=|<|>|not\s+in|in)"
    seen = set()
    for t in texts:
        if not t:
            continue
        atoms = [f'{n} {o} "{v}"' for n, o, v in re.findall(r'\b([a-z_]+)\s*(' + ops[3:-1] + r')\s*"([^"]*)"', t)]
        atoms += [f'"{v}" {o} {n}' for v, o, n in re.findall(r'"([^"]*)"\s*(' + ops[3:-1] + r')\s*([a-z_]+)\b', t)]
        for atom in atoms:
            if atom in seen or re.search(r"\bextra\b", atom):
                continue
            seen.add(atom)
            pe = {k: v for k, v in env.items() if isinstance(v, str)}
            try:
                exp = Marker(atom).evaluate(pe)
            except Exception:  # noqa: BLE001   (not an atom after all, or undefined for the reference)
                continue
            try:
                got = parse(atom).evaluate(dict(env))
            except Exception:  # noqa: BLE001
                return False
            if bool(exp) != bool(got):
                return False
    return True


def pv_pair_atoms(texts) -> bool:
    """is there anything a python_version atom could be merged with: a python_full_version atom or a second python_version atom?"""
    import re
    joined = " ".join(t or "" for t in texts)
    return "python_full_version" in joined or len(re.findall(r"\bpython_version\b", joined)) >= 2


def env_class(texts, env) -> str:
    """class prefix for findings that are instances of the recorded `in`-list defect: an atom
    `python_version [not] in "<list>"` whose environment value is a SUBSTRING of the list text but not one of
    its comma-separated elements (e.g. 3.1 against "3.9, 3.10"): evaluation is PEP 508 string containment,
    the specifier view treats the list as a set of versions"""
    import re
    # tilde-max-post (recorded for C06 / C04, witness C06_tilde_refuted) seen through markers: an upper bound `< "X.Y.postN"` next to a lower bound
    # makes the merged range render as `~=...`, which drops the releases between X.Y and X.Y.postN; only interpreters of that very release differ
    from packaging.version import Version as _V, InvalidVersion as _IV
    for var in ("python_full_version", "implementation_version", "platform_release", "python_version"):
        val = env.get(var)
        if not isinstance(val, str):
            continue
        try:
            vrel = (tuple(_V(val).release) + (0, 0, 0))[:3]
        except _IV:
            continue
        names = ("python_version", "python_full_version") if var in ("python_version", "python_full_version") else (var,)
        for t in texts:
            for nm in names:
                lits = re.findall(nm + r'\s*<=?\s*"([^"]*post[^"]*)"', t or "") + re.findall(r'"([^"]*post[^"]*)"\s*>=?\s*' + nm, t or "")
                for lit in lits:
                    try:
                        if (tuple(_V(lit).release) + (0, 0, 0))[:3] == vrel and _V(val) < _V(lit):
                            return "tilde-max-post|"
                    except _IV:
                        pass
    series = pv_long_operand(texts)
    if series and pv_pair_atoms(texts):
        pv = str(env.get("python_version", ""))
        mm = re.match(r"(\d+)\.(\d+)", pv)
        if mm and (int(mm.group(1)), int(mm.group(2))) in series:
            return "pv-long-operand|"
    for var in ("python_full_version", "implementation_version", "platform_release"):
        val = env.get(var)
        if isinstance(val, str) and re.search(r"(a|b|rc|dev|post)\d*$", val):
            # the recorded class: the non-final value is a pre/post-release OF A BOUND occurring in the markers (that is where PEP 440's
            # exclusion of the candidate applies); python_version bounds X.Y count as X.Y.0 and, for > and <=, as X.(Y+1).0
            base = tuple(int(x) for x in re.match(r"(\d+(?:\.\d+)*)", val).group(1).split("."))
            base = (base + (0, 0, 0))[:3]
            names = ("python_version", "python_full_version") if var == "python_full_version" else (var,)
            bounds = set()
            for t in texts:
                for nm in names:
                    for lit in re.findall(nm + r'\s*(?:~=|==|!=|<=|>=|<|>)\s*"([^"]*)"', t or "") + re.findall(r'"([^"]*)"\s*(?:~=|==|!=|<=|>=|<|>)\s*' + nm, t or ""):
                        _add_bound(bounds, lit)
                    for lst in re.findall(nm + r'\s*(?:not\s+in|in)\s*"([^"]*)"', t or ""):
                        for lit in lst.split(","):
                            _add_bound(bounds, lit)
            if base in bounds and atoms_agree(texts, env):
                return "nonfinal-env|"
    for t in texts:
        for var, lst in re.findall(r'(python_version|python_full_version) (?:not in|in) "([^"]*)"', t or ""):
            val = env.get(var)
            if isinstance(val, str) and val in lst and val not in [x.strip() for x in lst.split(",")]:
                return "pv-in-substring|"
    return ""


def _envs(env):
    return {k: (sorted(v) if isinstance(v, set) else v) for k, v in env.items()
            if k in ("python_full_version", "python_version", "extra", "os_name", "sys_platform", "platform_machine", "platform_release")}


# ------------------------------------------------------------------------------ C03
def oracle_c03(ctx: Ctx, n):
    from packaging.markers import Marker
    rng = random.Random(ctx.seed + 13)
    texts = CORPUS_TEXTS + gen_texts(ctx, n, depth=3, salt=3)
    for t in texts:
        ok, m = safe(ctx, "oracle-C03", lambda: parse(t))
        if not ok:
            continue
        try:
            pm = Marker(t)
        except Exception:  # noqa: BLE001
            continue
        ctx.count("oracle-C03", 1, nontrivial_key=(shape(m), t.count(" and "), t.count(" or "), '" ' in t.split(" ")[0]))
        for env in mg.env_grid([t], rng, limit=16):
            names = sorted(env["extra"]) or [""]
            for extra in names[:2] + ([""] if names != [""] else []):
                e = mg.pkg_env(env, extra)
                e["extras"] = set(env["extra"])
                e["dependency_groups"] = set()
                try:
                    exp = pm.evaluate(e)
                except Exception:  # noqa: BLE001
                    continue
                try:
                    got = m.evaluate(dict(e))
                except Exception as ex:  # noqa: BLE001
                    got = repr(ex)
                if got != exp:
                    ctx.finding(f"{env_class([t], e)}eval|{t}", "parse_marker(text).evaluate(env) differs from packaging's Marker(text).evaluate(env)",
                                {"marker": t, "env": _envs(e)}, exp, {"parsed_as": str(m), "value": got})
                    break
            else:
                continue
            break
    for ta, tb, conn, env0 in KNOWN_WITNESSES:
        t = f"{ta} {conn} {tb}"
        env = witness_env(env0)
        e = mg.pkg_env(env, "")
        ctx.count("oracle-C03", 1, nontrivial_key=("witness", t))
        try:
            exp, got = Marker(t).evaluate(e), parse(t).evaluate(dict(e))
        except Exception as ex:  # noqa: BLE001
            ctx.finding(f"eval-raise|{t}", f"a witness marker raised {type(ex).__name__}", {"marker": t}, None, repr(ex))
            continue
        if exp != got:
            ctx.finding(f"{env_class([t], e)}eval|{t}", "parse_marker(text).evaluate(env) differs from packaging's Marker(text).evaluate(env)",
                        {"marker": t, "env": _envs(e)}, exp, {"parsed_as": str(parse(t)), "value": got})
    ctx.sample({"stream": "oracle-C03", "marker": texts[len(texts) // 2]})
    # set-valued extras / dependency_groups membership
    for lit, envv in itertools.product(["foo", "Foo_Bar", "foo.bar", "baz"], [set(), {"foo"}, {"foo-bar", "x"}, {"FOO.BAR"}]):
        for var in ("extras", "dependency_groups"):
            for op in ("in", "not in"):
                t = f'"{lit}" {op} {var}'
                env = {"extras": set(), "dependency_groups": set(), var: envv}
                try:
                    exp = Marker(t).evaluate(env, context="lock_file")
                except Exception:  # noqa: BLE001   (the reference declines: not a well-defined atom)
                    continue
                try:
                    got = parse(t).evaluate(env, context="lock_file")
                except Exception as ex:  # noqa: BLE001
                    got = repr(ex)
                ctx.count("oracle-C03", 1, nontrivial_key=("setvar", var, op, len(envv)))
                if exp != got:
                    ctx.finding(f"setvar|{t}|{sorted(envv)}", "set-valued membership differs from packaging", {"marker": t, "env": sorted(envv)}, exp, got)
    # ... and inside compounds (lock-file context): the rewriting done while parsing must not change which environments are selected
    set_atoms = [f'"{lit}" {op} {var}' for lit in ("foo", "Foo_Bar", "baz") for op in ("in", "not in") for var in ("extras", "dependency_groups")]
    plain = ['python_version >= "3.9"', 'sys_platform == "linux"', 'python_full_version < "3.11.2"', 'os_name != "nt"']
    lock_envs = [{"extras": ex, "dependency_groups": dg, "python_version": pv, "python_full_version": pv + ".1", "sys_platform": sp, "os_name": "posix" if sp == "linux" else "nt"}
                 for ex in (set(), {"foo"}, {"foo-bar", "baz"}) for dg in (set(), {"foo"}, {"baz", "x"}) for pv, sp in (("3.8", "linux"), ("3.11", "win32"))]
    for _ in range(60 if ctx.tier == "quick" else 600):
        k = rng.choice([2, 3, 3, 4])
        atoms = [rng.choice(set_atoms if rng.random() < 0.7 else plain) for _ in range(k)]
        t = atoms[0]
        for a_ in atoms[1:]:
            t = f"{t} {rng.choice(['and', 'or'])} {a_}" if rng.random() < 0.7 else f"({t}) {rng.choice(['and', 'or'])} {a_}"
        try:
            pmk = Marker(t)
        except Exception:  # noqa: BLE001
            continue
        ok, m = safe(ctx, "oracle-C03", lambda: parse(t))
        if not ok:
            continue
        ctx.count("oracle-C03", 1, nontrivial_key=("setvar-compound", shape(m), t.count(" and "), t.count(" or ")))
        for env in lock_envs:
            try:
                exp = pmk.evaluate(dict(env), context="lock_file")
            except Exception:  # noqa: BLE001
                continue
            try:
                got = m.evaluate(dict(env), context="lock_file")
            except Exception as ex:  # noqa: BLE001
                got = repr(ex)
            if exp != got:
                ctx.finding(f"setvar-compound|{t}", "a marker over set-valued extras / dependency_groups evaluates differently from packaging (lock-file context)",
                            {"marker": t, "env": {k_: (sorted(v) if isinstance(v, set) else v) for k_, v in env.items()}}, exp, {"parsed_as": str(m), "value": got})
                break


# ------------------------------------------------------------------------------ C15 / C07 / C12 on derived markers
def derived(ctx: Ctx, n, salt):
    """(description, marker, source texts) for results of parse / & / | / only / exclude"""
    rng = random.Random(ctx.seed + salt)
    texts = CORPUS_TEXTS + gen_texts(ctx, n, salt=salt)
    parsed = []
    for t in texts:
        ok, m = safe(ctx, "derive", lambda: parse(t))
        if ok:
            parsed.append((t, m))
            yield (f"parse({t!r})", m, [t])
    from dep_logic.markers import AnyMarker, EmptyMarker
    specials = [("<any>", AnyMarker()), ("<empty>", EmptyMarker())]
    # regression corpus (c55408d): compounds whose cnf/dnf are bulkier than the raw candidate of union(), combined with <empty> / <any>
    for ta in ('python_version == "2.*" and extra == "bar" or python_full_version <= "2.7.18" and os_name not in ""',
               '(python_version in "3.6, 3.7" and extra != "a") or extra == "b" or (sys_platform == "darwin" and python_full_version < "3.7.2")',
               'python_version == "3.*" and os_name == "nt" or python_full_version < "3.6.1" and sys_platform not in "win32 darwin"'):
        ok, a = safe(ctx, "derive", lambda: parse(ta))
        if not ok:
            continue
        for tb, b in specials:
            for opname, f in (("|", lambda: a | b), ("&", lambda: a & b), ("r|", lambda: b | a), ("r&", lambda: b & a)):
                ok, r = safe(ctx, "derive", f)
                if ok:
                    yield (f"({ta}) {opname} ({tb})", r, [ta])
    for i in range(n):
        (ta, a), (tb, b) = rng.choice(parsed), rng.choice(parsed)
        if i < len(CORPUS_PAIRS):
            ta, tb = CORPUS_PAIRS[i]
            a, b = parse(ta), parse(tb)
        if rng.random() < 0.12:
            tb, b = rng.choice(specials)
            # prefer a compound left operand: that is where Empty/Any operands go through union()/intersection()
            for _ in range(6):
                if mg.kind(a) in ("MarkerUnion", "MultiMarker") and any(mg.kind(c) in ("MarkerUnion", "MultiMarker") for c in a.markers):
                    break
                ta, a = rng.choice(parsed)
        elif rng.random() < 0.18 and mg.kind(a) in ("MarkerUnion", "MultiMarker"):
            # overlapping compounds: the second operand shares a child with the first (deduplication across nested compounds)
            c = rng.choice(list(a.markers))
            (td, d) = rng.choice(parsed)
            ok, b2 = safe(ctx, "derive", lambda: (c | d) if rng.random() < 0.6 else (c & d))
            if ok:
                tb, b = f"[child {c} of the left operand] |& [{td}]", b2
        elif rng.random() < 0.1:
            # an operand that is itself a (possibly empty / universal) result
            (tc, c), (td, d) = rng.choice(parsed), rng.choice(parsed)
            ok, b2 = safe(ctx, "derive", lambda: c & d if rng.random() < 0.6 else c | d)
            if ok:
                tb, b = f"[{tc}] &| [{td}]", b2
        for opname, f in (("&", lambda: a & b), ("|", lambda: a | b)):
            ok, r = safe(ctx, "derive", f)
            if ok:
                yield (f"({ta}) {opname} ({tb})", r, [ta, tb])
                if rng.random() < 0.3:
                    vs = sorted(mg.variables(r))
                    if vs:
                        v = rng.choice(vs)
                        ok2, r2 = safe(ctx, "derive", lambda: r.exclude(v))
                        if ok2:
                            yield (f"(({ta}) {opname} ({tb})).exclude({v!r})", r2, [ta, tb])
                        keep = rng.sample(vs, rng.randint(1, len(vs)))
                        ok2, r2 = safe(ctx, "derive", lambda: r.only(*keep))
                        if ok2:
                            yield (f"(({ta}) {opname} ({tb})).only{tuple(keep)!r}", r2, [ta, tb])


def oracle_c15(ctx: Ctx, n):
    install_probes()
    clear_caches()
    for desc, m, src in derived(ctx, n, salt=15):
        ctx.count("oracle-C15", 1, nontrivial_key=(shape(m), desc.count("&"), desc.count("|"), "exclude" in desc, "only" in desc))
        for p in mg.nf_problems(m):      # every departure, so that a recorded one does not hide another in the same result
            ctx.finding(f"nf|{_site(p, m)}", f"result not in normal form: {p}", {"operation": desc}, "normal form", {"result": str(m), "dump": repr(mg.dump(m))[:400]})
    ctx.sample({"stream": "oracle-C15", "case": desc})


_PROBED = {}      # id(object) -> call site that built a one-child compound
_KEEP = []        # strong references, so ids are not reused


def install_probes():
    """wrap (in this process only, nothing in the repository changes) the two call sites
    known to build one-child compounds, so that a normal-form finding can be attributed"""
    from dep_logic.markers.multi import MultiMarker
    from dep_logic.markers.union import MarkerUnion
    if getattr(MultiMarker, "_verif_probed", False):
        return

    def wrap(cls, name):
        orig = getattr(cls, name)

        def probe(self, other):
            r = orig(self, other)
            if r is not None and mg.kind(r) in ("MultiMarker", "MarkerUnion") and len(r.markers) == 1:
                _PROBED[id(r)] = f"{cls.__name__}.{name}"
                _KEEP.append(r)
            return r
        setattr(cls, name, probe)

    wrap(MultiMarker, "union_simplify")
    wrap(MarkerUnion, "intersect_simplify")
    MultiMarker._verif_probed = True


def _site(p, m):
    """identify a normal-form violation by shape and, where known, by the call site that
    built the offending node (for the known-findings matcher)"""
    def walk(x):
        yield x
        for c in getattr(x, "markers", ()) if mg.kind(x) in ("MultiMarker", "MarkerUnion") else ():
            yield from walk(c)
    for node in walk(m):
        if mg.kind(node) in ("MultiMarker", "MarkerUnion") and len(node.markers) == 1:
            return f"{p}|site={_PROBED.get(id(node), '?')}"
    return f"{p}|site=?"


def oracle_c07(ctx: Ctx, n):
    from packaging.markers import Marker
    rng = random.Random(ctx.seed + 17)
    from dep_logic.markers import AnyMarker, EmptyMarker
    for sp, txt in ((AnyMarker(), ""), (EmptyMarker(), "<empty>")):
        if str(sp) != txt or parse(str(sp)) != sp:
            ctx.finding(f"special|{txt}", "empty/universal marker does not render/parse back to itself", {"marker": txt}, txt, str(sp))
    for desc, m, src in derived(ctx, n, salt=7):
        if m.is_any() or m.is_empty():
            continue
        ctx.count("oracle-C07", 1, nontrivial_key=(shape(m), str(m).count("("), " and " in str(m), " or " in str(m)))
        try:
            s = str(m)
        except Exception as e:  # noqa: BLE001
            ctx.finding(f"str-raise|{desc}", f"str() raised {type(e).__name__}", {"operation": desc}, "text", repr(e))
            continue
        if "<empty>" in s:
            ctx.finding(f"empty-inside|{desc}", "<empty> appears inside a larger marker", {"operation": desc}, None, s)
            continue
        try:
            Marker(s)
            ok, back = safe(ctx, "oracle-C07", lambda: parse(s))
            if not ok:
                continue
        except Exception as e:  # noqa: BLE001
            ctx.finding(f"reparse|{mg.nf_problem(m) or shape(m)}|{desc}", f"str(m) is not accepted on re-parse ({type(e).__name__})", {"operation": desc, "text": s}, "valid marker", repr(e))
            continue
        for env in mg.env_grid(src + [s], rng, limit=12):
            try:
                x, y = ev(m, env), ev(back, env)
            except Exception as e:  # noqa: BLE001
                ctx.finding(f"eval-raise|{desc}", f"evaluate raised {type(e).__name__}", {"operation": desc, "text": s}, None, repr(e))
                break
            if x != y:
                ctx.finding(f"{env_class(src + [s], env)}roundtrip|{desc}", "re-parsed marker evaluates differently", {"operation": desc, "text": s, "env": _envs(env)}, x, {"reparsed": str(back), "value": y})
                break
    ctx.sample({"stream": "oracle-C07", "case": desc})


def oracle_c12(ctx: Ctx, n):
    rng = random.Random(ctx.seed + 19)
    for desc, m, src in derived(ctx, n, salt=12):
        if "exclude" in desc or "only" in desc:
            continue
        vs = sorted(mg.variables(m))
        if not vs:
            continue
        envs = mg.env_grid(src, rng, limit=12)
        subsets = [c for r in range(1, len(vs) + 1) for c in itertools.combinations(vs, r)][:7]
        for keep in subsets:
            ok, r = safe(ctx, "oracle-C12", lambda: m.only(*keep))
            if not ok:
                continue
            ctx.count("oracle-C12", 1, nontrivial_key=("only", shape(m), len(vs), len(keep), shape(r)))
            leaked = mg.variables(r) - set(keep)
            if leaked:
                ctx.finding(f"only-leak|{desc}|{keep}", "only() result mentions a variable outside names", {"marker": desc, "names": keep}, "no other variable", {"result": str(r), "leaked": sorted(leaked)})
            for env in envs:
                try:
                    if ev(m, env) and not ev(r, env):
                        ctx.finding(f"{env_class(src, env)}only-impl|{desc}|{keep}", "m is satisfied but m.only(names) is not", {"marker": desc, "names": keep, "env": _envs(env)}, True, {"result": str(r), "value": False})
                        break
                    if set(vs) <= set(keep) and ev(m, env) != ev(r, env):
                        ctx.finding(f"{env_class(src, env)}only-id|{desc}", "only(all mentioned names) changes the meaning", {"marker": desc, "env": _envs(env)}, ev(m, env), {"result": str(r)})
                        break
                except Exception as e:  # noqa: BLE001
                    ctx.finding(f"only-eval-raise|{desc}|{keep}", f"evaluate raised {type(e).__name__} on m or on m.only(names)", {"marker": desc, "names": keep, "env": _envs(env)}, None, repr(e))
                    break
        # removed variables: every mentioned one, two that may not be mentioned, and `extra` whether mentioned or not (without_extras() on a
        # marker without extras must be the identity in meaning)
        for v in list(dict.fromkeys(vs + ["implementation_version", "platform_python_implementation", "extra"])):
            for meth, f in (("exclude", lambda: m.exclude(v)),) + ((("without_extras", lambda: m.without_extras()),) if v == "extra" else ()):
                ok, r = safe(ctx, "oracle-C12", f)
                if not ok:
                    continue
                ctx.count("oracle-C12", 1, nontrivial_key=(meth, shape(m), len(vs), shape(r)))
                if v in mg.variables(r):
                    ctx.finding(f"{meth}-leak|{desc}|{v}", f"{meth}() result still mentions the removed variable", {"marker": desc, "name": v}, "variable removed", str(r))
                if v not in vs:
                    for env in envs:
                        if ev(m, env) != ev(r, env):
                            ctx.finding(f"{env_class(src, env)}{meth}-id|{desc}|{v}", f"{meth}() of an unmentioned variable changes the meaning", {"marker": desc, "name": v, "env": _envs(env)}, ev(m, env), str(r))
                            break
    ctx.sample({"stream": "oracle-C12", "case": desc})


# ------------------------------------------------------------------------------ C14 / C13 marker part
def oracle_c14_markers(ctx: Ctx, n=None):
    n = n or (120 if ctx.tier == "quick" else 1500)
    rng = random.Random(ctx.seed + 23)
    texts = gen_texts(ctx, 60 if ctx.tier == "quick" else 300, depth=1, salt=14)
    ms = []
    for t in texts:
        ok, m = safe(ctx, "oracle-C14m", lambda: parse(t))
        if ok:
            ms.append((t, m))
    laws = [
        ("and-comm", lambda a, b, c: (a & b, b & a)), ("or-comm", lambda a, b, c: (a | b, b | a)),
        ("and-assoc", lambda a, b, c: ((a & b) & c, a & (b & c))), ("or-assoc", lambda a, b, c: ((a | b) | c, a | (b | c))),
        ("and-idem", lambda a, b, c: (a & a, a)), ("or-idem", lambda a, b, c: (a | a, a)),
        ("absorb-1", lambda a, b, c: (a & (a | b), a)), ("absorb-2", lambda a, b, c: (a | (a & b), a)),
        ("distr-1", lambda a, b, c: (a & (b | c), (a & b) | (a & c))), ("distr-2", lambda a, b, c: (a | (b & c), (a | b) & (a | c))),
    ]
    # same-variable families: atoms and ==/!= groups over one variable (where groups collapse, cancel and absorb)
    fam = []
    for v, (p, q, r_) in (("sys_platform", ("linux", "darwin", "win32")), ("os_name", ("nt", "posix", "java"))):
        items = [f'{v} == "{p}"', f'{v} != "{r_}"', f'{v} != "{p}"', f'{v} == "{p}" or {v} == "{q}"', f'{v} != "{p}" and {v} != "{q}"', f'{v} != "{q}" and {v} != "{r_}"', f'{v} in "{p} {r_}"']
        fam.append([(t, parse(t)) for t in items])
    triples = []
    for items in fam:
        for _ in range(25 if ctx.tier == "quick" else 200):
            triples.append((rng.choice(items), rng.choice(items), rng.choice(items)))
    for _ in range(n):
        triples.append((rng.choice(ms), rng.choice(ms), rng.choice(ms)))
    for (ta, a), (tb, b), (tc, c) in triples:
        envs = mg.env_grid([ta, tb, tc], rng, limit=10)
        for lname, f in laws:
            ok, lr = safe(ctx, "oracle-C14m", lambda: f(a, b, c))
            if not ok:
                continue
            l, r = lr
            ctx.count("oracle-C14-markers", 1, nontrivial_key=(lname, shape(a), shape(b), shape(c)))
            for env in envs:
                try:
                    x, y = ev(l, env), ev(r, env)
                except Exception as e:  # noqa: BLE001
                    ctx.finding(f"m-law-eval-raise|{lname}|{ta}|{tb}|{tc}", f"evaluate raised {type(e).__name__} on a side of marker law {lname}", {"law": lname, "a": ta, "b": tb, "c": tc, "env": _envs(env)}, None, repr(e))
                    break
                if x != y:
                    ctx.finding(f"{env_class([ta, tb, tc], env)}m-{lname}|{ta}|{tb}|{tc}", f"marker law {lname}: the two sides evaluate differently",
                                {"law": lname, "a": ta, "b": tb, "c": tc, "env": _envs(env)}, "equal truth values", {"lhs": str(l), "rhs": str(r), "values": [x, y]})
                    break


def oracle_c13_markers(ctx: Ctx, n):
    rng = random.Random(ctx.seed + 29)
    # markers that compare equal but were built differently
    pairs = [
        ('"3.8" <= python_version', 'python_version >= "3.8"'),
        ('python_version >= "3.8"', 'python_version >= "3.8"'),
        ('os_name == "nt" or os_name == "posix"', 'os_name == "posix" or os_name == "nt"'),
        ('os_name != "nt" and os_name != "posix"', 'os_name != "posix" and os_name != "nt"'),
        ('"nt" == os_name', 'os_name == "nt"'),
        ('python_full_version >= "3.10"', 'python_full_version >= "3.10.0"'),
        ('sys_platform == "linux" and os_name == "posix"', 'os_name == "posix" and sys_platform == "linux"'),
        ('"win" in sys_platform', 'sys_platform in "win"'),
        ('"linux darwin" not in sys_platform', 'sys_platform not in "linux darwin"'),
    ]
    texts = gen_texts(ctx, n, depth=1, salt=31)
    for t in texts[: n // 2]:
        pairs.append((t, t))
        pairs.append((t, rng.choice(texts)))
    others = [parse(t) for t in texts[:25]]
    for ta, tb in pairs:
        ok, ab = safe(ctx, "oracle-C13m", lambda: (parse(ta), parse(tb)))
        if not ok:
            continue
        a, b = ab
        ctx.count("oracle-C13-markers", 1, nontrivial_key=(shape(a), shape(b), ta == tb))
        try:
            if not a == a:
                ctx.finding(f"m-refl|{ta}", "x == x is false", {"x": ta}, True, False)
            e1, e2 = a == b, b == a
            if e1 != e2:
                ctx.finding(f"m-sym|{ta}|{tb}", "== is not symmetric", {"x": ta, "y": tb}, e1, e2)
            if e1 and hash(a) != hash(b):
                ctx.finding(f"m-hash|{shape(a)}|{ta}|{tb}", "x == y but hash(x) != hash(y)", {"x": ta, "y": tb}, "equal hashes", [hash(a), hash(b)])
            if e1:
                envs = mg.env_grid([ta, tb], rng, limit=10)
                for env in envs:
                    if ev(a, env) != ev(b, env):
                        ctx.finding(f"{env_class([ta, tb], env)}m-congr-eval|{_atomclass(a)}|{ta}|{tb}", "x == y but they evaluate differently (equal objects are not interchangeable)",
                                    {"x": ta, "y": tb, "env": _envs(env)}, ev(a, env), ev(b, env))
                        break
                c = rng.choice(others)
                for opn, f in (("&", lambda x: c & x), ("|", lambda x: c | x)):
                    ok, rr = safe(ctx, "oracle-C13m", lambda: (f(a), f(b)))
                    if not ok:
                        continue
                    for env in envs:
                        if ev(rr[0], env) != ev(rr[1], env):
                            ctx.finding(f"{env_class([ta, tb, str(c)], env)}m-congr|{_atomclass(a)}|{opn}|{ta}|{tb}", "equal operands give results with different meaning",
                                        {"x": ta, "y": tb, "other": str(c), "op": opn, "env": _envs(env)}, "same meaning", [str(rr[0]), str(rr[1])])
                            break
        except Exception as e:  # noqa: BLE001
            ctx.finding(f"m-raise|{ta}|{tb}", f"==/hash raised {type(e).__name__}", {"x": ta, "y": tb}, None, repr(e))
    ctx.sample({"stream": "oracle-C13-markers", "case": list(pairs[0])})


def _atomclass(m):
    if mg.kind(m) == "MarkerExpression":
        return f"atom:{m.op}:{'rev' if m.reversed else 'fwd'}"
    return mg.kind(m)


# ------------------------------------------------------------------------------ C11
def oracle_c11(ctx: Ctx):
    from packaging.specifiers import SpecifierSet
    from dep_logic.markers.single import MarkerExpression
    from dep_logic.specifiers import parse_version_specifier
    interps = [(x, y, z) for x in (2, 3, 4) for y in (0, 1, 5, 6, 7, 8, 9, 10, 11) for z in (0, 1, 2, 9)]
    if ctx.tier == "thorough":
        interps = [(x, y, z) for x in (2, 3, 4) for y in range(0, 15) for z in (0, 1, 2, 9, 10)]

    def env_of(i):
        return {"python_full_version": "%d.%d.%d" % i, "python_version": "%d.%d" % i[:2]}

    ops = ["==", "!=", "<", "<=", ">", ">=", "~="]
    atoms = []
    for op in ops:
        for lit in ["3", "3.6", "3.7", "3.10", "2.7"]:
            if op == "~=" and "." not in lit:
                continue
            atoms.append(("python_version", op, lit))
        for lit in ["3.6", "3.7", "3.7.0", "3.7.1", "3.10.2", "3", "3.9a1", "3.7.0rc1", "3.8.post1", "3.9.dev0"]:
            if op == "~=" and "." not in lit:
                continue
            atoms.append(("python_full_version", op, lit))
    for op in ("==", "!="):
        atoms += [("python_version", op, "3.*"), ("python_full_version", op, "3.7.*"), ("python_full_version", op, "3.*")]
    for op in ("in", "not in"):
        atoms += [("python_version", op, "3.6, 3.7"), ("python_version", op, "2.7"), ("python_version", op, "3.6,3.10, 3.11"), ("python_version", op, "3.9")]
    # literal-on-the-left spellings of the comparison atoms (stored with the reflected operator)
    rev_atoms = [(n, o, l, True) for (n, o, l) in atoms if o in ("==", "!=", "<", "<=", ">", ">=", "~=")]
    for name, op, lit, *rev in [a + (False,) for a in atoms] + rev_atoms:
        rev = bool(rev and rev[0])
        m = MarkerExpression(name, op, lit, rev)
        ctx.count("oracle-C11", 1, nontrivial_key=("view", name, op, lit.count("."), "*" in lit, rev))
        try:
            spec = m.specifier
        except Exception as e:  # noqa: BLE001
            ctx.finding(f"view-raise|{name}|{op}|{lit}", f".specifier raised {type(e).__name__}", {"atom": str(m)}, "a specifier", repr(e))
            continue
        for i in interps:
            env = env_of(i)
            val = env[name]
            try:
                a = m.evaluate(env)
                b = spec.contains(val) if hasattr(spec, "contains") else (val in spec)
            except Exception as e:  # noqa: BLE001
                ctx.finding(f"view-eval-raise|{name}|{op}|{lit}", f"evaluate/contains raised {type(e).__name__}", {"atom": str(m), "value": val}, None, repr(e))
                break
            if a != b:
                from packaging.version import Version as _V
                # the recorded class: literal-on-the-left atoms that are never merged (so that no result depends on their view):
                # "lit" ~= name, wildcard literals, and "lit" < / > name with a pre/post-release literal at an interpreter of the literal's own release
                cls = ""
                if rev and (op == "~=" or "*" in lit):
                    cls = "rev-suffix-view|"
                elif rev and op in ("<", ">") and (_V(lit).is_prerelease or _V(lit).is_postrelease):
                    pad = lambda r: (tuple(r) + (0, 0, 0))[:3]
                    if pad(_V(val).release) == pad(_V(lit).release):
                        cls = "rev-suffix-view|"
                ctx.finding(f"{cls}{env_class([str(m)], env)}view|{name}|{op}|{lit}|{'rev' if rev else ''}", "the specifier view admits a different set than the atom evaluates true on",
                            {"atom": str(m), "value": val}, a, {"specifier": str(spec), "admits": b})
                break
    # the views at work: a python_version atom (in / not in lists included) merged with a python_full_version atom must evaluate as
    # the conjunction / disjunction of the two atoms on every consistent final interpreter (python_version = X.Y of python_full_version
    # = X.Y.Z) -- the list view of python_version is only exercised here, through _merge_python_version_single_markers
    pv_atoms = [a for a in atoms if a[0] == "python_version"]
    pfv_atoms = [a for a in atoms if a[0] == "python_full_version"]
    mrng = random.Random(ctx.seed + 1711)
    pairs = [(a, b) for a in pv_atoms for b in pfv_atoms]
    if ctx.tier == "quick":
        listed = [(a, b) for (a, b) in pairs if "in" in a[1]]
        rest = [(a, b) for (a, b) in pairs if "in" not in a[1]]
        pairs = listed + mrng.sample(rest, min(len(rest), 250))
    m_interps = [i for i in interps if i[0] == 3 and i[1] >= 5] + [(2, 7, 0), (2, 7, 9), (4, 0, 0), (3, 0, 1)]
    for (n1, o1, l1), (n2, o2, l2) in pairs:
        ta, tb = f'{n1} {o1} "{l1}"', f'{n2} {o2} "{l2}"'
        for order in (0, 1):
            x, y = (ta, tb) if order == 0 else (tb, ta)
            for opname, comb in (("and", lambda p, q: p and q), ("or", lambda p, q: p or q)):
                ok, res = safe(ctx, "oracle-C11", lambda: (parse(x), parse(y), (parse(x) & parse(y)) if opname == "and" else (parse(x) | parse(y))))
                if not ok:
                    continue
                a, b, r = res
                ctx.count("oracle-C11", 1, nontrivial_key=("merge", o1, l1.count("."), o2, l2.count("."), opname, order))
                for i in m_interps:
                    env = env_of(i)
                    try:
                        exp, got = comb(ev(a, env), ev(b, env)), ev(r, env)
                    except Exception as e:  # noqa: BLE001
                        ctx.finding(f"merge-eval-raise|{x}|{y}", f"evaluate raised {type(e).__name__}", {"a": x, "b": y, "env": _envs(env)}, None, repr(e))
                        break
                    if exp != got:
                        ctx.finding(f"{env_class([x, y], env)}merge|{opname}|{x}|{y}", "a python_version atom merged with a python_full_version atom does not evaluate as the combination of the two atoms",
                                    {"a": x, "b": y, "env": _envs(env)}, exp, {"result": str(r), "value": got})
                        break
    simple = []
    for op in ["==", "!=", "<", "<=", ">", ">=", "~="]:
        for lit in ["3", "3.6", "3.7.1", "3.10", "3.9a1", "3.7.0rc1", "3.8.post1", "3.9.dev0", "3b2"]:
            if op == "~=" and "." not in lit:
                continue
            simple.append(op + lit)
    simple += ["==3.*", "!=3.*", "==3.7.*", "!=3.7.*", "==2.*", "<3.0||>=4.0", "<3.7||>=3.8", "<3.7.0||>=3.7.1", ">=3.6,<4.0", ">=3.7,<3.8", "<empty>", ""]
    for text in simple:
        for name in ("python_version", "python_full_version"):
            ctx.count("oracle-C11", 1, nontrivial_key=("back", name, text[:2], text.count("."), "*" in text))
            try:
                spec = parse_version_specifier(text)
                m = MarkerExpression.from_specifier(name, spec)
            except Exception as e:  # noqa: BLE001
                ctx.finding(f"back-raise|{name}|{text}", f"from_specifier raised {type(e).__name__}", {"name": name, "specifier": text}, "a marker or None", repr(e))
                continue
            if m is None:
                continue
            for i in interps:
                env = env_of(i)
                if name == "python_version" and i[2] != 0:
                    continue
                val = env[name]
                try:
                    a = m.evaluate(env)
                except Exception as e:  # noqa: BLE001
                    ctx.finding(f"back-eval-raise|{name}|{text}", f"evaluate raised {type(e).__name__}", {"specifier": text, "marker": str(m)}, None, repr(e))
                    break
                if text == "<empty>":
                    b = False
                elif "||" in text:
                    b = any(SpecifierSet(p).contains(val) for p in text.split("||"))
                else:
                    b = SpecifierSet(text).contains(val)
                if a != b:
                    ctx.finding(f"back|{name}|{text}", "from_specifier yields an atom that evaluates differently from the specifier",
                                {"name": name, "specifier": text, "value": val}, b, {"marker": str(m), "value": a})
                    break
    ctx.sample({"stream": "oracle-C11", "case": ["python_full_version", "~=", "3.6"]})


# ------------------------------------------------------------------------------ C10
def oracle_c10(ctx: Ctx, n):
    """history independence: run a history, then a probe, in this process; compare with the
    same probe run FIRST in a fresh interpreter (forked from a process that never imported
    dep_logic), text and truth table"""
    rng = random.Random(ctx.seed + 37)
    key_equal_groups = [
        ['"3.8" <= python_version', 'python_version >= "3.8"'],
        ['python_full_version >= "3.10"', 'python_full_version >= "3.10.0"', '"3.10" <= python_full_version'],
        ['os_name == "nt" or os_name == "posix"', 'os_name == "posix" or os_name == "nt"'],
        ['(os_name == "a" or os_name == "b") and sys_platform == "linux"', '(os_name == "b" or os_name == "a") and sys_platform == "linux"'],
        ['os_name != "nt" and os_name != "posix"', 'os_name != "posix" and os_name != "nt"'],
        ['"nt" == os_name', 'os_name == "nt"'],
    ]
    paired = [
        (['python_version >= "3.7"', 'python_version >= "3.7.0"'], ['python_version <= "3.7"', 'python_version <= "3.7.0"']),
        (['python_full_version > "3.6"', 'python_full_version > "3.6.0"'], ['python_full_version < "3.8"', 'python_full_version < "3.8.0"']),
        (['python_version >= "3.8"', '"3.8" <= python_version'], ['python_version < "3.10"', '"3.10" > python_version']),
        (['python_version < "3.7"', 'python_version < "3.7.0"'], ['python_version >= "3.8"', 'python_version >= "3.8.0"']),
    ]
    others = gen_texts(ctx, 40, depth=1, salt=41) + ['sys_platform == "linux"', 'python_version < "3.11"', 'extra == "foo"']

    def run_op(op):
        kind, x, y = op
        if kind == "parse":
            return parse(x)
        a, b = parse(x), parse(y)
        return (a & b) if kind == "and" else (a | b)

    def envs_for(op):
        return mg.env_grid([op[1], op[2] or ""], random.Random(5), limit=8)

    def observe(op):
        ok, r = safe(ctx, "oracle-C10", lambda: run_op(op))
        if not ok:
            return None
        try:
            return (str(r), tuple(bool(ev(r, e)) for e in envs_for(op)))
        except Exception as e:  # noqa: BLE001
            return (f"error {e!r}", ())

    # near-key siblings: two atoms that differ in exactly ONE component (variable, operator, spelling of the value, side of the literal).
    # A cache whose key leaves that component out answers the probe with what it computed for the sibling.
    VL = ["python_version", "python_full_version", "platform_release", "implementation_version"]

    def atom_text(name, op, val, rev=False):
        if rev:
            flip = {">=": "<=", "<=": ">=", ">": "<", "<": ">"}.get(op, op)
            return f'"{val}" {flip} {name}'
        return f'{name} {op} "{val}"'

    def partners(name):
        out = [f'{name} >= "3.8"', f'{name} < "3.10"', f'{name} != "3.9"']
        if name in ("python_version", "python_full_version"):
            out += ['python_version >= "3.8"', 'python_full_version < "3.9.5"', 'python_version < "3.10"', 'python_full_version >= "3.8.0"']
        return out

    sibling = []   # (history, probe), enumerated; the quick tier samples it but keeps every in-list / name pair
    must = []
    for op in [">=", "<", "==", "!=", "in", "not in", "~=", ">", "<="]:
        vals = ["3.8, 3.9", "3.7,3.8"] if "in" in op else ["3.8", "3.10", "3.9.1"]
        for bn in VL:
            for val in vals[:2]:
                base = atom_text(bn, op, val)
                sibs = [(atom_text(sn, op, val), "name") for sn in VL if sn != bn]
                sibs += [(atom_text(bn, o2, val), "op") for o2 in ([">=", "<", "==", "!="] if "in" not in op else ["in", "not in"]) if o2 != op]
                if "in" not in op:
                    sibs += [(atom_text(bn, op, val + ".0"), "value"), (atom_text(bn, op, val, rev=True), "side")]
                for sib, how in sibs:
                    for kind in ("and", "or"):
                        pb = rng.choice(partners(bn))
                        sn_ = sib.split()[0] if not sib.startswith('"') else bn
                        ps = rng.choice(partners(sn_ if sn_ in VL else bn))
                        hist = [(kind, sib, ps), (rng.choice(["and", "or"]), ps, sib)]
                        item = (hist, (kind, base, pb))
                        (must if ("in" in op and how == "name") else sibling).append(item)
    for g_name, g_vals in (("sys_platform", ["linux", "win32"]), ("os_name", ["nt", "posix"])):
        for op in ("==", "!=", "in", "not in"):
            base = atom_text(g_name, op, g_vals[0])
            for sib in (atom_text("os_name" if g_name == "sys_platform" else "sys_platform", op, g_vals[0]), atom_text(g_name, "!=" if op == "==" else "==", g_vals[0]),
                        atom_text(g_name, op, g_vals[0], rev=True)):
                for kind in ("and", "or"):
                    other = f'{g_name} != "{g_vals[1]}"'
                    sibling.append(([(kind, sib, other), (kind, other, sib)], (kind, base, other)))
    rng.shuffle(sibling)
    n_sib = len(sibling) if ctx.tier != "quick" else max(0, min(len(sibling), n // 3))
    sibling_scenarios = must + sibling[:n_sib]
    ctx.coverage["streams"]["oracle-C10-sibling-scenarios"] = len(sibling_scenarios)

    scenarios = list(sibling_scenarios)
    for k in range(n):
        if k % 3 == 0:
            xs, ys = rng.choice(paired)
            kind = rng.choice(["and", "or"])
            hist = [(kind, rng.choice(xs), rng.choice(ys)) for _ in range(rng.randint(1, 2))]
            probe = (kind, rng.choice(xs), rng.choice(ys))
            if rng.random() < 0.4:
                probe = ("parse", f"{probe[1]} {kind} {probe[2]}" + rng.choice(["", ' and python_full_version >= "3.7.2"']), None)
        else:
            grp = rng.choice(key_equal_groups)
            hist = []
            for _ in range(rng.randint(1, 4)):
                kind = rng.choice(["parse", "and", "or", "and", "or"])
                x = rng.choice(grp + others[:5])
                y = rng.choice(others) if kind != "parse" else None
                hist.append((kind, x, y))
            probe_kind = rng.choice(["and", "or", "parse"])
            probe = (probe_kind, rng.choice(grp), rng.choice(others) if probe_kind != "parse" else None)
            if probe_kind != "parse" and rng.random() < 0.5:
                ys_ = [h[2] for h in hist if h[2]]
                if ys_:
                    probe = (probe_kind, probe[1], rng.choice(ys_))
        scenarios.append((hist, probe))
    # warm observations, in this process
    warm = []
    for hist, probe in scenarios:
        clear_caches()
        for h in hist:
            safe(ctx, "oracle-C10", lambda: run_op(h))
        warm.append(observe(probe))
    clear_caches()
    # cold observations: each distinct probe first in a fresh interpreter
    distinct = list({p for _, p in scenarios})
    fresh = fresh_results([{"op": list(p), "envs": envs_for(p)} for p in distinct])
    if fresh is None:
        ctx.broke("harness", "fresh-interpreter probe runner failed", "fresh_probe.py returned an unexpected number of results")
        return
    cold_of = {p: ((f["text"], tuple(f["truth"])) if "text" in f else None) for p, f in zip(distinct, fresh)}
    for (hist, probe), w in zip(scenarios, warm):
        c = cold_of[probe]
        if w is None or c is None:
            continue
        ctx.count("oracle-C10", 1, nontrivial_key=(probe[0], len(hist), tuple(h[0] for h in hist), w == c))
        if w != c:
            what = "meaning" if w[1] != c[1] else "rendered text"
            ctx.finding(f"history|{_c10_class(probe, hist, w, c)}", f"the {what} of an operation depends on what was computed before",
                        {"history": hist, "probe": probe}, {"fresh_interpreter": c[0]}, {"after_history": w[0]})
    ctx.sample({"stream": "oracle-C10", "history": scenarios[0][0], "probe": scenarios[0][1]})


def _c10_class(probe, hist, warm=None, cold=None):
    """class of a history dependence, for the known-findings matcher.  `value-order-text-only`:
    the two renderings have the same truth table and the same multiset of atoms and
    connectives, and differ only in the order in which the values of one
    EqualityMarkerUnion / InequalityMultiMarker group are written"""
    import re

    def atoms(t):
        return sorted(re.split(r"\s+(?:and|or)\s+|[()]", t))

    fam = "other"
    if warm is not None and cold is not None and warm[1] == cold[1] and atoms(warm[0]) == atoms(cold[0]):
        # same atoms: is the difference confined to same-variable ==/!= groups?
        def norm(t):
            # sort the members of every maximal run `v == "x" or v == "y"` / `v != "x" and v != "y"`
            def sort_run(m):
                parts = re.split(r"\s+(or|and)\s+", m.group(0))
                conn = parts[1]
                return f" {conn} ".join(sorted(parts[0::2]))
            # a grouped atom renders as  v == "x" or v == "y" ...  /  v != "x" and v != "y" ...: one connective per run
            t = re.sub(r'(\w+) == "[^"]*"(?: or \1 == "[^"]*")+', sort_run, t)
            return re.sub(r'(\w+) != "[^"]*"(?: and \1 != "[^"]*")+', sort_run, t)
        if norm(warm[0]) == norm(cold[0]):
            fam = "value-order-text-only"
    return f"{fam}|{probe[0]}|{probe[1]}|{probe[2]}"


CORPUS_TEXTS = [
    # regression corpus of the repaired defects (bc2bb2a: python_version operands with trailing ".0"; d25006e: literal-on-the-left ~= / wildcard)
    'python_full_version >= "2.7.18" and python_version == "2.7.0"', 'python_version >= "3.8.0" and python_full_version < "3.8.5"', 'python_version != "3.9.0" or python_full_version >= "3.9.2"',
    'python_version <= "3.10.0" and python_full_version > "3.10.1"', 'python_version ~= "3.8.0" or python_full_version >= "3.9.1"', 'python_version > "3.7.0.0" and python_full_version >= "3.8.5"',
    '"3.8.1" ~= python_full_version and python_full_version < "3.8.1"', '"3.8.*" == python_version or python_version < "3.8"', '"3.8.*" != python_version and python_version >= "3.8"',
    '"3.8" ~= python_version or python_version < "3.0"', '"3.7.*" == python_full_version and python_full_version >= "3.7.2"',
    # a146c5c: an atom combined with itself
    '"li" in sys_platform and "li" in sys_platform', '"li" not in sys_platform or "li" not in sys_platform', '"3.8.1" ~= python_full_version and "3.8.1" ~= python_full_version',
    '"3.8.*" == python_version or "3.8.*" == python_version', '"3.11a3" < python_full_version and "3.11a3" < python_full_version', 'os_name == "nt" and os_name == "nt"',
    # 9db3cb1: a major-only python_version operand means X.0
    'python_version > "3" and python_full_version > "3.7.1"', 'python_version <= "3" or python_full_version >= "3.0.5"', 'python_version >= "3" and python_full_version < "3.0.2"',
    'python_version == "3" or python_full_version >= "3.1.0"', 'python_version < "3" and python_full_version >= "2.7.18"',
    '"3.11a3" < python_full_version and python_version != "2.7"', '"3.7.0.post2" > python_full_version and python_version <= "3.11"', '"3.9.dev0" < python_full_version or python_version < "3.8"',
    '"lin" in sys_platform and sys_platform == "linux"', '"lin" in sys_platform or sys_platform == "win32"', '(sys_platform == "linux" or sys_platform == "linux2") and "2" in sys_platform',   # literal-on-the-left containment (fixed 0a9cbbb)
    '(sys_platform != "linux" and sys_platform != "linux2") or "lin" not in sys_platform', '"3.1" in python_version and python_version >= "3.10"',
    'implementation_version == "3.8" or implementation_version == "3.9"', 'implementation_version != "3.8" and implementation_version != "3.9"',       # version-valued but once grouped as strings (fixed e54358e)
    'implementation_version >= "7.3.1" and implementation_version >= "7.3.10"',
    'python_version >= "3.8" and python_full_version >= "3.9a1"', 'python_full_version > "3.9rc1" and python_version >= "3.8"', 'python_full_version >= "3.8.post1" and python_version >= "3.8"',
    '"3.8" <= python_version', 'python_version >= "3.8"', 'os_name == "a" or os_name == "b"', 'os_name != "a"',
    'python_version ~= "3.8"', 'python_full_version ~= "3.8.1"', 'python_version in "3.6, 3.7"', 'python_version not in "3.6, 3.7"',
    'extra == "foo" or extra == "bar"', 'extra != "foo"', 'sys_platform in "linux darwin"', 'sys_platform not in "win"',
    'python_version == "3.*"', 'python_full_version != "3.7.*"', 'python_version > "3.7" and python_full_version < "3.9.2"',
    'sys_platform != "linux" and sys_platform != "win32"', 'platform_machine != "x86_64" and platform_machine != "sparc" and platform_machine in "x86_64 aarch64 arm64"',
    '(sys_platform == "a" and os_name == "a") or (sys_platform == "a" and os_name != "a")',
    'os_name == "nt" and (sys_platform == "linux" or python_version >= "3.8")',
    'python_full_version < "3.0" or python_full_version >= "4.0"',
]
def _group_stress():
    """every combination of two ==-groups / !=-groups / atoms over ONE variable, joined by and / or"""
    out = []
    for v, (a, b, c) in (("sys_platform", ("linux", "darwin", "win32")), ("os_name", ("nt", "posix", "java"))):
        E1, E2 = f'{v} == "{a}" or {v} == "{b}"', f'{v} == "{b}" or {v} == "{c}"'
        N1, N2 = f'{v} != "{a}" and {v} != "{b}"', f'{v} != "{b}" and {v} != "{c}"'
        atoms = [f'{v} == "{a}"', f'{v} != "{c}"', f'{v} in "{a} {c}"', f'{v} not in "{b}"', f'"{a[:2]}" in {v}']
        groups = [E1, E2, N1, N2]
        for x in groups:
            for y in groups + atoms:
                if x != y:
                    out += [f"({x}) and ({y})", f"({x}) or ({y})"]
    return out


CORPUS_TEXTS = CORPUS_TEXTS + _group_stress()


def _group_pairs():
    """operand pairs over ONE variable: every two of the ==-groups / !=-groups / atoms (both orders), for & and |"""
    out = []
    for v, (a, b, c) in (("sys_platform", ("linux", "darwin", "win32")), ("os_name", ("nt", "posix", "java"))):
        items = [f'{v} == "{a}" or {v} == "{b}"', f'{v} == "{b}" or {v} == "{c}"', f'{v} != "{a}" and {v} != "{b}"', f'{v} != "{b}" and {v} != "{c}"',
                 f'{v} == "{a}"', f'{v} != "{c}"', f'{v} in "{a} {c}"', f'"{a[:2]}" in {v}']
        out += [(x, y) for x in items for y in items if x != y]
    return out


CORPUS_PAIRS = [
    ('python_full_version >= "2.7.18"', 'python_version == "2.7.0"'), ('python_version >= "3.8.0"', 'python_full_version < "3.8.5"'), ('python_version <= "3.10.0"', 'python_full_version > "3.10.1"'),
    ('python_version > "3"', 'python_full_version > "3.7.1"'), ('python_version <= "3"', 'python_full_version >= "3.0.5"'),
    ('"3.8.1" ~= python_full_version', 'python_full_version < "3.8.1"'), ('"3.8.*" == python_version', 'python_version < "3.8"'), ('"3.8.*" != python_version', 'python_version >= "3.8"'),
    ('"3.11a3" < python_full_version', 'python_version != "2.7"'), ('"3.7.0.post2" > python_full_version', 'python_version <= "3.11"'),    # reversed < / > with a pre/post-release literal (fixed 004ebf8)
    ('"3.9.dev0" < python_full_version', 'python_full_version <= "3.9.0rc1"'),
    # two unions sharing a child, with version atoms that inflate cnf/dnf so that union() returns its raw candidate
    ('(python_version in "3.6, 3.7" and extra != "a") or extra == "b"', 'extra == "b" or (sys_platform == "darwin" and python_full_version < "3.7.2")'),
    ('(python_version in "3.6, 3.7" and os_name != "nt") or os_name == "posix"', 'os_name == "posix" or (sys_platform == "linux" and python_full_version >= "3.7.1")'),
    ('python_version >= "3.8"', 'python_full_version >= "3.9a1"'),            # from_specifier padding of a suffixed operand (fixed e817af8)
    ('python_version >= "3.8"', 'python_full_version > "3.9rc1"'),
    ('python_version < "3.12"', 'python_full_version >= "3.9.dev0"'),
    ('sys_platform == "linux" and os_name == "nt" or sys_platform == "win32"', '<empty>'),
    ('(sys_platform == "linux" or os_name == "nt") and sys_platform != "win32"', ''),
    ('sys_platform == "linux" and os_name == "nt" or python_version >= "3.8" and extra == "foo"', '<empty>'),
    ('os_name == "a" or os_name == "b"', 'os_name != "a"'),
    ('sys_platform != "linux" and sys_platform != "win32"', 'sys_platform in "linux darwin"'),
    ('sys_platform == "a" or sys_platform == "b"', 'sys_platform != "a" and sys_platform != "b"'),
    ('os_name == "nt" and sys_platform == "linux"', 'os_name == "nt" and python_version >= "3.8"'),
    ('python_version >= "3.6"', 'python_full_version < "3.6.2"'),
    ('python_version == "3.7"', 'python_full_version >= "3.7.3"'),
    ('python_full_version < "3.0"', 'python_full_version >= "4.0"'),
    ('extra == "foo"', 'extra == "bar"'),
    ('extra == "foo"', 'extra != "foo"'),
    ('python_version ~= "3.6"', 'python_version < "3.9"'),
]
CORPUS_PAIRS = CORPUS_PAIRS + _group_pairs()
