"""smstr.py — the S-mstr correspondence stream: Model/MarkerStr.v against str() of marker objects (lexed) and
against packaging's parser (the tree Marker(text)._markers) on the lexed text."""
from __future__ import annotations

import re

import coqrun
import smark
from framework import Ctx

LEX = re.compile(r'\s*(<empty>|\(|\)|"[^"]*"|\'[^\']*\'|===|==|!=|<=|>=|~=|<|>|not\s+in\b|in\b|and\b|or\b|[A-Za-z_][A-Za-z0-9_.]*)')
OPS = smark.OPS


def lex(text: str):
    out, i = [], 0
    text = text.rstrip()
    while i < len(text):
        m = LEX.match(text, i)
        if not m:
            raise ValueError(f"cannot lex {text[i:i+20]!r}")
        t = m.group(1)
        i = m.end()
        if t == "<empty>":
            out.append("LEmptyTok")
        elif t == "(":
            out.append("LLP")
        elif t == ")":
            out.append("LRP")
        elif t[0] in "\"'":
            out.append(f"(LLit {coqrun.cstr(t[1:-1])})")
        elif t == "and":
            out.append("LAnd")
        elif t == "or":
            out.append("LOr")
        elif re.sub(r"\s+", " ", t) in OPS:
            out.append(f"(LOp {OPS[re.sub(r'\s+', ' ', t)]})")
        else:
            out.append(f"(LName {coqrun.cstr(t)})")
    return "[" + "; ".join(out) + "]"


def stream_smstr(ctx: Ctx, n: int):
    from packaging.markers import Marker
    import props_marker as pm
    cases = []
    seen = set()
    texts = []
    for desc, m, src in pm.derived(ctx, n, salt=77):
        try:
            s = str(m)
            cm = smark.cmarker(m)
        except Exception:  # noqa: BLE001
            continue
        if s in seen:
            continue
        seen.add(s)
        try:
            lx = lex(s)
        except ValueError:
            lx = "[LRP]"       # not lexable: a guaranteed mismatch
        cases.append((f"SStr {cm} {lx}", f"str: {desc} -> {s!r}"))
        texts.append(s)
    texts += [t for t in pm.CORPUS_TEXTS] + ['os_name == "a" and', '(os_name == "a"', 'os_name == "a" or or os_name == "b"', '() and os_name == "a"', 'os_name == "a" and <empty>', 'os_name "a"',
                                            '"a" == os_name and ("b" != os_name or "c" < python_version)', '((os_name == "a"))', '(os_name == "a" or os_name == "b") and (sys_platform != "c" and sys_platform != "d")']
    for t in texts:
        if t in ("", "<empty>"):
            continue
        try:
            lx = lex(t)
        except ValueError:
            continue
        try:
            tree = f"(Some {smark.cptree(Marker(t)._markers)})"
        except Exception:  # noqa: BLE001
            tree = "None"
        cases.append((f"SParse {lx} {tree}", f"parse: {t!r}"))
    terms = [c[0] for c in cases]
    total, bad, errs = coqrun.eval_cases(terms, f"{ctx.prop}-smstr", mod="Marker CorrMarker MarkerStr", casety="scase", runner="run_scases", shard=200, timeout=300)
    ctx.count("S-mstr", total)
    if errs:
        ctx.broke("correspondence", "S-mstr (evaluation failed)", "\n".join(errs[:3]))
        return
    if bad:
        i = bad[0]
        ctx.broke("correspondence", "S-mstr: Model/MarkerStr.v vs str() of markers / packaging's marker parser",
                  f"{len(bad)} of {len(cases)} cases differ; first: {cases[i][1]} :: {cases[i][0][:700]}; kinds: " + ", ".join(sorted({cases[j][1].split(':')[0] for j in bad})))
    if cases:
        ctx.sample({"stream": "S-mstr", "case": cases[len(cases) // 2][1]})
