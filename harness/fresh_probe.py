"""fresh_probe.py — run each probe operation FIRST in a fresh interpreter state.
Reads JSON lines {"op": [kind, x, y], "envs": [...]} on stdin; for each line forks a
child in which dep_logic has never been imported, runs the operation there and prints
{"text": str(result), "truth": [...]} (or {"error": ...})."""
import json
import os
import signal
import sys


def child(job):
    sys.path.insert(0, os.environ.get("VERIF_REPO", "/repo") + "/src")
    signal.alarm(6)
    try:
        from dep_logic.markers import parse_marker
        kind, x, y = job["op"]
        if kind == "parse":
            r = parse_marker(x)
        else:
            a, b = parse_marker(x), parse_marker(y)
            r = (a & b) if kind == "and" else (a | b)
        envs = []
        for e in job["envs"]:
            e = dict(e)
            if isinstance(e.get("extra"), list):
                e["extra"] = set(e["extra"])
            envs.append(e)
        out = {"text": str(r), "truth": [bool(r.evaluate(e)) for e in envs]}
    except BaseException as ex:  # noqa: BLE001
        out = {"error": repr(ex)}
    sys.stdout.write(json.dumps(out) + "\n")
    sys.stdout.flush()
    os._exit(0)


def main():
    assert "dep_logic" not in sys.modules
    for line in sys.stdin:
        job = json.loads(line)
        sys.stdout.flush()
        pid = os.fork()
        if pid == 0:
            child(job)
        _, status = os.waitpid(pid, 0)
        if status != 0:
            sys.stdout.write(json.dumps({"error": f"child status {status}"}) + "\n")
            sys.stdout.flush()


if __name__ == "__main__":
    main()
