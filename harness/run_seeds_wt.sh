#!/bin/sh
# usage: run_seeds_wt.sh [seed ...]   like run_seeds.sh, but never touches /repo: every stored seeded change is applied in ONE scratch
# worktree (/tmp/seedwt/all, created here and removed at the end) and the property's check runs against it through VERIF_REPO
# (evidence of such runs goes to _scratch_evidence/).
cd "$(dirname "$0")/.."
ROOT=$(pwd)
WT=/tmp/seedwt/all$$
mkdir -p /tmp/seedwt
git -C /repo worktree add -q --detach $WT HEAD || exit 2
SEEDS=${@:-$(ls seeded)}
for s in $SEEDS; do
  prop=$(python3 -c "import json;print(json.load(open('seeded/$s/meta.json'))['breaks_property'])")
  if ! git -C $WT apply $ROOT/seeded/$s/patch.diff 2>/dev/null; then echo "$s ($prop): PATCH-DOES-NOT-APPLY"; continue; fi
  out=$(VERIF_REPO=$WT timeout 1200 ./check $prop 2>&1); rc=$?
  git -C $WT checkout -q -- . ; git -C $WT clean -fdq src
  v=$(echo "$out" | grep -c '^VIOLATION')
  nf=$(echo "$out" | grep -c 'no-failing-input-found')
  echo "$s ($prop): exit=$rc violations=$v no-failing-input=$nf  $(echo "$out" | grep -v '^KNOWN' | tail -1 | cut -c1-150)"
done
git -C /repo worktree remove --force $WT; git -C /repo worktree prune
