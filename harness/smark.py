"""smark.py — the S-mark correspondence stream: Model/Marker.v against dep_logic.markers.
Operands are passed structurally; the results of _merge_single_markers on version-like
atoms observed during each implementation call are passed to the model as a table (the
model's `vmerge` parameter); Python set iteration order is resolved by trying the model's
order selectors."""
from __future__ import annotations

import random

import coqrun
import markergen as mg
from framework import Ctx, Timeout, with_timeout

OPS = {"==": "MEq", "!=": "MNe", "in": "MIn", "not in": "MNotIn", "<": "MLt", "<=": "MLe", ">": "MGt", ">=": "MGe", "~=": "MCompat", "===": "MArb"}
VERSION_LIKE = {"python_version", "python_full_version", "platform_release", "implementation_version"}


def catom(m) -> str:
    return f"(A_ {coqrun.cstr(m.name)} {OPS[m.op]} {coqrun.cstr(m.value)} {coqrun.cbool(bool(m.reversed))})"


def cmarker(m) -> str:
    k = mg.kind(m)
    if k == "AnyMarker":
        return "MAny"
    if k == "EmptyMarker":
        return "MEmpty"
    if k == "MarkerExpression":
        return f"(MAtom {catom(m)})"
    if k in ("EqualityMarkerUnion", "InequalityMultiMarker"):
        vals = "[" + "; ".join(coqrun.cstr(v) for v in m.values) + "]"
        return f"({'MEqU' if k == 'EqualityMarkerUnion' else 'MNeM'} {coqrun.cstr(m.name)} {vals})"
    if k in ("MultiMarker", "MarkerUnion"):
        return f"({'MMulti' if k == 'MultiMarker' else 'MUnion'} [" + "; ".join(cmarker(c) for c in m.markers) + "])"
    raise ValueError(k)


ALL_ROWS = []   # every (is_and, m1, m2, result) recorded during this run, for check_vmerge_rows


def check_vmerge_rows(ctx: Ctx, limit_envs=24):
    """the hypothesis `vmerge_sound` of the C02 theorems, checked on every row that the implementation produced
    during the S-mark stream: the merged marker evaluates as the conjunction / disjunction of the two atoms"""
    import props_marker as pm
    rng = random.Random(ctx.seed + 4242)
    seen = set()
    n = 0
    for kind, m1, m2, r in ALL_ROWS:
        if r is None:
            continue
        key = (kind, str(m1), str(m2), bool(getattr(m1, "reversed", False)), bool(getattr(m2, "reversed", False)))
        if key in seen:
            continue
        seen.add(key)
        t1, t2 = str(m1), str(m2)
        n += 1
        # hypothesis vmerge_leaf of C15: the merge returns an atom, the universal or the empty marker, never a compound
        if type(r).__name__ not in ("MarkerExpression", "AnyMarker", "EmptyMarker"):
            ctx.finding(f"vmerge-shape|{t1}|{t2}", "_merge_single_markers returned something other than an atom, the universal or the empty marker (hypothesis vmerge_leaf of C15 fails on the code)",
                        {"a": t1, "b": t2, "is_and": kind}, "MarkerExpression | AnyMarker | EmptyMarker", {"result": str(r), "type": type(r).__name__})
        # hypothesis vmerge_names of C12: a merged version atom mentions only the variables of the two atoms
        extra_vars = mg.variables(r) - {m1.name, m2.name}
        if extra_vars:
            ctx.finding(f"vmerge-vars|{t1}|{t2}", "_merge_single_markers result mentions a variable of neither atom (hypothesis vmerge_names of C12 fails on the code)",
                        {"a": t1, "b": t2, "is_and": kind}, sorted({m1.name, m2.name}), {"result": str(r), "extra": sorted(extra_vars)})
        for env in mg.env_grid([t1, t2], rng, limit=limit_envs):
            try:
                exp = (m1.evaluate(env) and m2.evaluate(env)) if kind else (m1.evaluate(env) or m2.evaluate(env))
                got = r.evaluate(env)
            except Exception as e:  # noqa: BLE001
                ctx.finding(f"vmerge-raise|{t1}|{t2}", f"evaluate raised {type(e).__name__} on a merged version atom", {"a": t1, "b": t2, "env": pm._envs(env)}, None, repr(e))
                break
            if exp != got:
                ctx.finding(f"{pm.env_class([t1, t2], env)}vmerge|{'and' if kind else 'or'}|{t1}|{t2}",
                            "_merge_single_markers result is not the conjunction/disjunction of the two version atoms (hypothesis vmerge_sound of C02 fails on the code)",
                            {"a": t1, "b": t2, "is_and": kind, "env": pm._envs(env)}, exp, {"result": str(r), "value": got})
                break
    ctx.count("S-vmerge-rows", n)


class Recorder:
    """records _merge_single_markers(marker1, marker2, cls) on version-like atoms"""

    def __init__(self):
        from dep_logic.markers import single as S
        self.S = S
        self.orig = S._merge_single_markers
        self.calls = []

    def __enter__(self):
        from dep_logic.markers.multi import MultiMarker
        from dep_logic.markers.union import MarkerUnion
        rec = self
        self.orders = []          # (list in operand order, list in set-iteration order)
        self.order_map = {}
        self.order_conflict = False

        def wrapper(m1, m2, cls):
            r = rec.orig(m1, m2, cls)
            if m1.name in VERSION_LIKE or m2.name in VERSION_LIKE:
                rec.calls.append((cls is MultiMarker, m1, m2, r))
                ALL_ROWS.append((cls is MultiMarker, m1, m2, r))
            return r
        self.S._merge_single_markers = wrapper

        # the iteration order of `our_markers - their_markers` / `their_markers - our_markers` in union_simplify / intersect_simplify:
        # recomputed here exactly as the method computes it (same elements inserted in the same order give the same set order)
        def note_orders(this, other):
            if type(other) is not type(this):
                return
            ours, theirs = set(this.markers), set(other.markers)
            for src, a, b in ((this.markers, ours, theirs), (other.markers, theirs, ours)):
                seen, key = [], []
                for m in src:
                    if m in seen:
                        continue
                    seen.append(m)
                    if m not in b:
                        key.append(m)
                if len(key) < 2:
                    continue
                order = list(a - b)
                if key == order:
                    continue
                kt = tuple(key)
                old = rec.order_map.get(kt)
                if old is None:
                    rec.order_map[kt] = order
                    rec.orders.append((key, order))
                elif old != order:
                    rec.order_conflict = True

        self.saved_simplify = (MultiMarker.union_simplify, MarkerUnion.intersect_simplify)
        orig_us, orig_is = self.saved_simplify

        def us(this, other):
            note_orders(this, other)
            return orig_us(this, other)

        def isimp(this, other):
            note_orders(this, other)
            return orig_is(this, other)
        MultiMarker.union_simplify, MarkerUnion.intersect_simplify = us, isimp
        return self

    def __exit__(self, *a):
        from dep_logic.markers.multi import MultiMarker
        from dep_logic.markers.union import MarkerUnion
        self.S._merge_single_markers = self.orig
        MultiMarker.union_simplify, MarkerUnion.intersect_simplify = self.saved_simplify

    def table(self) -> str:
        seen, rows = set(), []
        for kind, m1, m2, r in self.calls:
            key = (kind, catom(m1), catom(m2))
            if key in seen:
                continue
            seen.add(key)
            rows.append(f"({coqrun.cbool(kind)}, {key[1]}, {key[2]}, {'None' if r is None else '(Some ' + cmarker(r) + ')'})")
        prow = []
        for key, order in getattr(self, "orders", [])[:80]:
            try:
                prow.append("([" + "; ".join(cmarker(m) for m in key) + "], [" + "; ".join(cmarker(m) for m in order) + "])")
            except ValueError:
                continue
        return "([" + "; ".join(rows) + "], [" + "; ".join(prow) + "])"


def cptree(node) -> str:
    from packaging.markers import Variable
    from dep_logic.utils import get_reflect_op
    if isinstance(node, tuple):
        if isinstance(node[0], Variable):
            name, op, value, rev = str(node[0]), str(node[1]), str(node[2]), False
        else:
            name, op, value, rev = str(node[2]), get_reflect_op(str(node[1])), str(node[0]), True
        # str(Value) is the quoted serialisation; the implementation uses .value via str()? it uses str(markers[i])
        return f"(PAtom (A_ {coqrun.cstr(name)} {OPS[op]} {coqrun.cstr(value)} {coqrun.cbool(rev)}))"
    items = []
    for it in node:
        if it == "or":
            items.append("POr")
        elif it == "and":
            items.append("PAnd")
        else:
            items.append(f"(PSub {cptree(it)})")
    return "(PList [" + "; ".join(items) + "])"


class Uncached:
    """run with the cnf/dnf lru_caches bypassed, so that the Python cost reflects the cost of the (cache-free) model"""

    def __enter__(self):
        from dep_logic import utils as U
        self.U = U
        self.saved = (U.cnf, U.dnf)
        U.cnf = getattr(U.cnf, "__wrapped__", U.cnf)
        U.dnf = getattr(U.dnf, "__wrapped__", U.dnf)

    def __exit__(self, *a):
        self.U.cnf, self.U.dnf = self.saved


def res_term(thunk):
    try:
        with Uncached():
            r = with_timeout(0.4, thunk)
    except Timeout:
        return None
    except Exception as e:  # noqa: BLE001
        n = type(e).__name__
        return f"(Raise {n})" if n in ("TypeError", "ValueError", "AttributeError", "IndexError", "KeyError", "AssertionError") else "(Raise Unfueled)"
    try:
        return f"(Ret {cmarker(r)})"
    except ValueError:
        return "(Raise Unfueled)"


def clear():
    import props_marker
    props_marker.clear_caches()


def stream_smark(ctx: Ctx, n_pairs: int, texts=None, with_parse=True, with_only=True, with_eval=True, only_rate=0.3, n_parse=None):
    from packaging.markers import Marker
    from dep_logic.markers import parse_marker
    import props_marker as pm
    rng = random.Random(ctx.seed + 101)
    texts = texts or (pm.CORPUS_TEXTS + pm.gen_texts(ctx, max(40, n_pairs // 3, (n_parse or 0) // 2), salt=55))
    parsed = []
    for t in texts:
        try:
            parsed.append((t, with_timeout(4.0, lambda: parse_marker(t))))
        except Exception:  # noqa: BLE001
            continue
    cases = []   # (template with {k}, description)

    def add(kind, build_term, desc):
        cases.append((kind, build_term, desc))

    # parse
    if with_parse:
        for t, _ in parsed[: (n_parse or max(30, n_pairs // 4))]:
            clear()
            try:
                tree = Marker(t)._markers
            except Exception:  # noqa: BLE001
                continue
            with Recorder() as rec:
                r = res_term(lambda: parse_marker(t))
            if r is None:
                continue
            add("parse", (lambda k, tb=rec.table(), p=cptree(tree), r=r: f"MCParse {tb} {k}%nat {p} {r}"), f"parse({t!r})")
    pairs = [(pm.parse(a), pm.parse(b), a, b) for a, b in pm.CORPUS_PAIRS]
    for _ in range(n_pairs):
        (ta, a), (tb, b) = rng.choice(parsed), rng.choice(parsed)
        pairs.append((a, b, ta, tb))
    for a, b, ta, tb in pairs:
        try:
            ca, cb = cmarker(a), cmarker(b)
        except ValueError:
            continue
        for op, f in (("MCAnd", lambda: a & b), ("MCOr", lambda: a | b)):
            clear()
            with Recorder() as rec:
                r = res_term(f)
            if r is None:
                ctx.coverage["streams"]["S-mark-timeouts"] = ctx.coverage["streams"].get("S-mark-timeouts", 0) + 1
                continue
            add(op, (lambda k, op=op, tb=rec.table(), ca=ca, cb=cb, r=r: f"{op} {tb} {k}%nat {ca} {cb} {r}"), f"({ta}) {'&' if op == 'MCAnd' else '|'} ({tb})")
        if with_only and rng.random() < only_rate:
            # only()/exclude() on the operand, or (half of the time) on the result of a | b / a & b: that is where conjunctions with nested unions come from
            if rng.random() < 0.5:
                try:
                    with Uncached():
                        a2 = with_timeout(0.4, lambda: (a | b) if rng.random() < 0.6 else (a & b))
                    ca2 = cmarker(a2)
                    a, ca, ta = a2, ca2, f"[({ta}) |& ({tb})]"
                except Exception:  # noqa: BLE001
                    pass
            vs = sorted(mg.variables(a))
            if vs:
                v = rng.choice(vs)
                clear()
                with Recorder() as rec:
                    r = res_term(lambda: a.exclude(v))
                if r is not None:
                    add("exclude", (lambda k, tb=rec.table(), v=v, ca=ca, r=r: f"MCExclude {tb} {k}%nat {coqrun.cstr(v)} {ca} {r}"), f"({ta}).exclude({v!r})")
                keep = rng.sample(vs, rng.randint(1, len(vs)))
                clear()
                with Recorder() as rec:
                    r = res_term(lambda: a.only(*keep))
                if r is not None:
                    ks = "[" + "; ".join(coqrun.cstr(x) for x in keep) + "]"
                    add("only", (lambda k, tb=rec.table(), ks=ks, ca=ca, r=r: f"MCOnly {tb} {k}%nat {ks} {ca} {r}"), f"({ta}).only{tuple(keep)!r}")
        if with_eval and rng.random() < 0.5:
            for env in mg.env_grid([ta], rng, limit=3):
                term = eval_case(a, env)
                if term:
                    add("eval", (lambda k, term=term: term), f"evaluate({ta}, env)")
    clear()
    # evaluate in Coq; resolve set order by trying the selectors
    pending = list(range(len(cases)))
    unresolved = []
    total_eval = 0
    for k in (0, 1, 2, 3, 4):
        if not pending:
            break
        terms = [cases[i][1](k) for i in pending]
        total, bad, errs = coqrun.eval_cases(terms, f"{ctx.prop}-smark-{k}", mod="Marker CorrMarker", casety="mcase", runner="run_mcases", shard=40, timeout=150)
        if errs and any(e.split(":", 1)[1].strip() == "" for e in errs):
            # a shard timed out inside Coq: the cache-free model is too slow on some case; evaluate that shard's cases one by one
            slow_shards = [int(e.split(":")[0][6:11]) for e in errs if e.split(":", 1)[1].strip() == ""]
            real_errs = [e for e in errs if e.split(":", 1)[1].strip() != ""]
            for sh in slow_shards:
                idxs = list(range(sh * 40, min(len(terms), sh * 40 + 40)))
                t1, b1, e1 = coqrun.eval_cases([terms[j] for j in idxs], f"{ctx.prop}-smark-{k}-s{sh}", mod="Marker CorrMarker", casety="mcase", runner="run_mcases", shard=1, timeout=25)
                total += t1
                bad.extend(idxs[j] for j in b1)
                too_slow = len(idxs) - t1
                ctx.coverage["streams"]["S-mark-model-too-slow"] = ctx.coverage["streams"].get("S-mark-model-too-slow", 0) + too_slow
                real_errs += [e for e in e1 if e.split(":", 1)[1].strip() != ""]
            errs = real_errs
        if k == 0:
            total_eval = total
        if errs:
            ctx.broke("correspondence", "S-mark (evaluation failed)", "\n".join(errs[:3]))
            return
        pending = [pending[j] for j in sorted(set(bad))]
        if k == 0:
            first_bad = list(pending)
        if k == 3:
            ctx.coverage["streams"]["S-mark-compared-up-to-child-order"] = len(pending)
    ctx.count("S-mark", total_eval)
    ctx.coverage["streams"]["S-mark-needed-set-order-search"] = len(first_bad) - len(pending) if cases else 0
    if pending:
        pending = sorted(pending, key=lambda j: len(cases[j][2]))   # report the shortest differing case first
        ctx.coverage["streams"]["S-mark-differing"] = [cases[j][2][:500] for j in pending[:10]]
        i = pending[0]
        ctx.broke("correspondence", "S-mark: Model/Marker.v vs dep_logic.markers",
                  f"{len(pending)} of {len(cases)} cases differ under every set-order selector; first: {cases[i][2]} :: {cases[i][1](0)[:900]}")
    if cases:
        ctx.sample({"stream": "S-mark", "case": cases[len(cases) // 2][2]})
    check_vmerge_rows(ctx)


def eval_case(m, env):
    """MCEval term: the model's meval against evaluate() on one environment"""
    from dep_logic.markers.single import MarkerExpression
    try:
        exp = m.evaluate(env)
    except Exception:  # noqa: BLE001
        return None
    svars = "[" + "; ".join(f"({coqrun.cstr(k)}, {coqrun.cstr(v)})" for k, v in env.items() if isinstance(v, str) and k not in VERSION_LIKE and k != "extra") + "]"
    from dep_logic.utils import normalize_name
    extras = env.get("extra", set())
    if isinstance(extras, str):
        extras = {extras} if extras else set()
    ex = "[" + "; ".join(coqrun.cstr(normalize_name(x)) for x in sorted(extras)) + "]"
    vt = []

    def walk(x):
        k = mg.kind(x)
        if k == "MarkerExpression" and x.name in VERSION_LIKE:
            try:
                vt.append(f"({catom(x)}, {coqrun.cbool(x.evaluate(env))})")
            except Exception:  # noqa: BLE001
                raise ValueError
        for c in getattr(x, "markers", ()) if k in ("MultiMarker", "MarkerUnion") else ():
            walk(c)
    try:
        walk(m)
        return f"MCEval {cmarker(m)} {svars} {ex} [{'; '.join(vt)}] {coqrun.cbool(exp)}"
    except ValueError:
        return None
